#!/bin/sh
# Offline setup: runtime-contract libraries beside the repository's interpreter.
here="$(cd "$(dirname "$0")" && pwd)"
mkdir -p "$here/.deps"
PIP_NO_INDEX=1 /venv/bin/pip install --quiet --no-index \
  --find-links /opt/veriftools/wheels --target "$here/.deps" --upgrade \
  icontract deal 2>&1 | tail -3
/venv/bin/python -c "import sys; sys.path.insert(0, '$here/.deps'); import icontract, deal; print('deps ok', icontract.__version__)"
