#!/bin/sh
# run every registered check once (tier $1, default quick); print one line each
tier="${1:-quick}"
here="$(cd "$(dirname "$0")/.." && pwd)"
cd "$here"
rc=0
for c in C01 C02 C03 C04 C05 C06 C07 C08 C09 C10 C11 C12 C13 C14 C15 C16 C17 C18 C19 C20; do
  [ -f harness/checks/$(echo $c | tr A-Z a-z).py ] || continue
  start=$(date +%s)
  out=$(./check $c --tier $tier 2>&1); st=$?
  end=$(date +%s)
  echo "$c exit=$st $((end-start))s $(echo "$out" | grep -E "^$c: " | cut -c1-150)"
  echo "$out" | grep -E "VIOLATION|KNOWN-FINDING|INCONCLUSIVE" | cut -c1-220
  [ $st -ne 0 ] && rc=1
done
exit $rc
