#!/bin/sh
# usage: seed_sweep.sh <tier> <seed>...   runs all checks (no evidence written) per seed
tier="$1"; shift
here="$(cd "$(dirname "$0")/.." && pwd)"
cd "$here"
for seed in "$@"; do
  for c in C01 C02 C03 C04 C05 C06 C07 C08 C09 C10 C11 C12 C13 C14 C15 C16 C17 C18 C19 C20; do
    out=$(VERIF_SEED=$seed ./check $c --tier $tier --no-evidence 2>&1); st=$?
    echo "seed=$seed $c exit=$st $(echo "$out" | grep -E "^$c: " | cut -c1-120)"
    [ $st -ne 0 ] && echo "$out" | grep -E "VIOLATION|rule=|INCONCLUSIVE" | head -6 | cut -c1-400
  done
done
