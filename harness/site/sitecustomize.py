"""Bootstrap for every interpreter the verification harness starts.

This file lives outside the repository and is put on PYTHONPATH by the
harness, so it is inherited by every child process the runner spawns.

1. Namespace repair: in /venv the ``zope`` namespace package is pre-seeded by
   ``zope.testrunner-*-nspkg.pth`` with ``__path__ == ['/repo/src/zope']`` so
   ``zope.interface`` & co. cannot be imported.  Append every
   ``<sys.path entry>/zope`` directory.
2. ``ZTR_VERIF_SRC`` selects the source tree zope.testrunner is imported from
   (default /repo/src); it is placed first.
3. With the guard ``ZOPE_TESTRUNNER_VERIF=1`` the runtime monitors are
   installed (see ztr_monitor.py).
"""
import os
import sys


def _repair_namespace():
    src = os.environ.get('ZTR_VERIF_SRC') or '/repo/src'
    src = os.path.abspath(src)
    # make the selected tree win for "zope.testrunner"
    if src in sys.path:
        sys.path.remove(src)
    sys.path.insert(0, src)
    if src != '/repo/src' and '/repo/src' in sys.path:
        sys.path.remove('/repo/src')
    try:
        import zope
    except ImportError:
        return
    path = []
    first = os.path.join(src, 'zope')
    if os.path.isdir(first):
        path.append(first)
    for entry in list(getattr(zope, '__path__', [])) + [
            os.path.join(p, 'zope') for p in sys.path if p]:
        if src != '/repo/src' and entry.startswith('/repo/src'):
            continue
        if entry not in path and os.path.isdir(entry):
            path.append(entry)
    try:
        zope.__path__ = path
    except Exception:
        pass


_repair_namespace()

if os.environ.get('ZTR_COV_RC'):
    # line coverage of the runner under the checks' workloads (harness/
    # linecov.sh): which anchored code the monitors' workloads never reach
    try:
        import coverage
        os.environ['COVERAGE_PROCESS_START'] = os.environ['ZTR_COV_RC']
        coverage.process_startup()
    except Exception:
        pass

if os.environ.get('ZOPE_TESTRUNNER_VERIF') == '1':
    try:
        import ztr_monitor
        ztr_monitor.install()
    except Exception:  # never break the interpreter we observe
        import traceback
        traceback.print_exc()
