"""Runtime monitors installed into every runner process (guard:
ZOPE_TESTRUNNER_VERIF=1).  Nothing here edits the repository: real functions
are decorated after their module has been imported.

Monitors never raise into the code they observe: a broken contract is
*recorded* (``contract.violation`` event + COUNTERS) and the run continues.
"""
import atexit
import importlib.abc
import importlib.machinery
import os
import re
import sys
import threading

import vtrace

emit = vtrace.emit

COUNTERS = {}
VIOLATIONS = []
_lock = threading.RLock()


def count(name, n=1):
    with _lock:
        COUNTERS[name] = COUNTERS.get(name, 0) + n


def violation(contract, **detail):
    with _lock:
        VIOLATIONS.append((contract, detail))
    count('violation.' + contract)
    emit('contract.violation', contract=contract, **detail)


try:
    import icontract
    HAVE_ICONTRACT = True
except Exception:   # pragma: no cover
    icontract = None
    HAVE_ICONTRACT = False


class ContractBroken(Exception):
    """Never raised in practice: conditions record and return True."""


def ensure(post):
    """Postcondition decorator.  ``post(result, *args, **kw)`` records."""
    def deco(fn):
        import functools

        @functools.wraps(fn)
        def wrapper(*a, **kw):
            result = fn(*a, **kw)
            try:
                count('eval.' + fn.__name__)
                post(result, *a, **kw)
            except Exception as e:   # monitor bug must not break the run
                emit('monitor.error', where=fn.__name__, err=repr(e))
            return result
        wrapper.__wrapped_by_ztr__ = True
        return wrapper
    return deco


# --------------------------------------------------------- post-import hook

_PATCHES = {}


def on_import(modname):
    def deco(fn):
        _PATCHES.setdefault(modname, []).append(fn)
        return fn
    return deco


class _Finder(importlib.abc.MetaPathFinder):
    def find_spec(self, fullname, path, target=None):
        if fullname not in _PATCHES:
            return None
        for finder in sys.meta_path:
            if finder is self:
                continue
            try:
                spec = finder.find_spec(fullname, path, target)
            except AttributeError:
                continue
            if spec is not None:
                break
        else:
            return None
        loader = spec.loader
        if loader is None or not hasattr(loader, 'exec_module'):
            return spec
        spec.loader = _Loader(loader, fullname)
        return spec


class _Loader(importlib.abc.Loader):
    def __init__(self, inner, fullname):
        self.inner = inner
        self.fullname = fullname

    def __getattr__(self, name):
        return getattr(self.inner, name)

    def create_module(self, spec):
        return self.inner.create_module(spec)

    def exec_module(self, module):
        self.inner.exec_module(module)
        for fn in _PATCHES.get(self.fullname, ()):
            try:
                fn(module)
                count('patched.' + self.fullname)
            except Exception as e:
                emit('monitor.error', where='patch ' + self.fullname,
                     err=repr(e))


# ----------------------------------------------------------- formatter claims

CLAIM_METHODS = ('start_set_up', 'stop_set_up', 'start_tear_down',
                 'stop_tear_down', 'tear_down_not_supported')


@on_import('zope.testrunner.formatter')
def _patch_formatter(mod):
    import functools
    cls = mod.OutputFormatter
    for name in CLAIM_METHODS:
        orig = cls.__dict__.get(name)
        if orig is None:
            continue

        def make(orig, name):
            @functools.wraps(orig)
            def wrapper(self, *a, **kw):
                arg = a[0] if a and isinstance(a[0], str) else None
                emit('claim.' + name, arg=arg)
                return orig(self, *a, **kw)
            return wrapper
        setattr(cls, name, make(orig, name))
    # test-level claims: used by the oracles only to delimit episodes
    for name in ('start_test', 'stop_test'):
        orig = cls.__dict__.get(name)
        if orig is None:
            continue

        def make2(orig, name):
            @functools.wraps(orig)
            def wrapper(self, test, *a, **kw):
                try:
                    tid = test.id()
                except Exception:
                    tid = None
                emit('claim.' + name, id=tid)
                return orig(self, test, *a, **kw)
            return wrapper
        setattr(cls, name, make2(orig, name))


# ------------------------------------------------- runner: Popen/sleep proxies

class _PopenState:
    lock = threading.Lock()
    alive = 0
    max_alive = 0
    spawned = 0
    polls = 0
    polls_at_last_spawn = 0
    layer_order = []


def reset_run_state():
    """Called by the in-process harness before every run."""
    st = _PopenState
    with st.lock:
        st.alive = 0
        st.max_alive = 0
        st.spawned = 0
        st.polls = 0
        st.polls_at_last_spawn = 0
        del st.layer_order[:]


class _ModuleProxy:
    """Attribute proxy for a module with some names overridden."""

    def __init__(self, real, **over):
        self.__dict__['_real'] = real
        self.__dict__['_over'] = over

    def __getattr__(self, name):
        over = self.__dict__['_over']
        if name in over:
            return over[name]
        return getattr(self.__dict__['_real'], name)


class _FaultyReader:
    """The child's stdout as the parent sees it, with one transient read
    error: the n-th readline() raises OSError(errno) once, before anything is
    read (nothing is lost - a retry gets the line)."""

    def __init__(self, real, nth, code, layer):
        self.__dict__.update(_real=real, _nth=nth, _code=code, _calls=0,
                             _layer=layer)

    def readline(self, *a):
        d = self.__dict__
        d['_calls'] += 1
        if d['_calls'] == d['_nth']:
            emit('read.fail', layer=d['_layer'], nth=d['_nth'],
                 code=d['_code'])
            raise OSError(d['_code'], os.strerror(d['_code']))
        return d['_real'].readline(*a)

    def __getattr__(self, name):
        return getattr(self.__dict__['_real'], name)

    def __iter__(self):
        return iter(self.__dict__['_real'])


def _make_popen(real_subprocess):
    RealPopen = real_subprocess.Popen

    class MonPopen(RealPopen):
        def __init__(self, args, *a, **kw):
            st = _PopenState
            layer = None
            try:
                if '--resume-layer' in args:
                    layer = args[args.index('--resume-layer') + 1]
            except Exception:
                pass
            self._ztr_layer = layer
            self._ztr_counted = False
            fail_nth = os.environ.get('ZTR_SPAWN_FAIL')
            with st.lock:
                st.spawned += 1
                nth = st.spawned
            if fail_nth:
                spec = fail_nth.split(':')
                hit = str(nth) in spec[0].split(',')
                if spec[0].startswith('layer#'):
                    # persistent: EVERY attempt to start a child for the
                    # k-th distinct layer fails (retries included)
                    with st.lock:
                        if layer not in st.layer_order:
                            st.layer_order.append(layer)
                        hit = (st.layer_order.index(layer) + 1 ==
                               int(spec[0][6:]))
                if hit:
                    import errno
                    code = getattr(errno, spec[1] if len(spec) > 1
                                   else 'EAGAIN')
                    emit('spawn.fail', layer=layer, nth=nth)
                    raise OSError(code, os.strerror(code))
            try:
                RealPopen.__init__(self, args, *a, **kw)
            except BaseException as e:
                emit('spawn.error', layer=layer, err=repr(e))
                raise
            with st.lock:
                st.alive += 1
                self._ztr_counted = True
                if st.alive > st.max_alive:
                    st.max_alive = st.alive
                alive = st.alive
                st.polls_at_last_spawn = st.polls
            emit('spawn', layer=layer, child=self.pid, alive=alive, nth=nth)
            rf = os.environ.get('ZTR_READ_FAIL')
            if rf and self.stdout is not None:
                # '<k-th child>:<n-th readline>:<ERRNO>'
                import errno
                k, n, code = rf.split(':')
                if int(k) == nth:
                    self.stdout = _FaultyReader(
                        self.stdout, int(n), getattr(errno, code), layer)

        def _ztr_reaped(self, how):
            st = _PopenState
            with st.lock:
                if not self._ztr_counted:
                    return
                self._ztr_counted = False
                st.alive -= 1
                alive = st.alive
            emit('reap', layer=self._ztr_layer, child=self.pid,
                 rc=self.returncode, alive=alive, how=how)
            mdir = os.environ.get('ZTR_MARKERS')
            if mdir and self._ztr_layer:
                try:
                    open(os.path.join(
                        mdir, 'reaped.' + self._ztr_layer), 'w').close()
                except OSError:
                    pass

        def communicate(self, *a, **kw):
            try:
                return RealPopen.communicate(self, *a, **kw)
            finally:
                if self.returncode is not None:
                    self._ztr_reaped('communicate')

        def wait(self, *a, **kw):
            rc = RealPopen.wait(self, *a, **kw)
            return rc

    return MonPopen


@on_import('zope.testrunner.runner')
def _patch_runner(mod):
    import subprocess as real_subprocess
    import time as real_time
    MonPopen = _make_popen(real_subprocess)
    mod.subprocess = _ModuleProxy(real_subprocess, Popen=MonPopen)

    def sleep(s):
        with _PopenState.lock:
            _PopenState.polls += 1
        return real_time.sleep(s)
    mod.time = _ModuleProxy(real_time, sleep=sleep)

    # --- contracts on the pure ordering functions -------------------------
    orig_order = mod.order_by_bases
    gather = mod.gather_layers

    def closure(layer):
        out = []
        gather(layer, out)
        return out

    def post_order(result, layers):
        layers = list(layers)
        ok = True
        if len(set(map(id, result))) != len(result):
            ok = False
            violation('order_by_bases.duplicate',
                      result=[_lname(x) for x in result])
        if set(map(id, result)) != set(map(id, layers)):
            ok = False
            violation('order_by_bases.not_permutation',
                      result=[_lname(x) for x in result],
                      input=[_lname(x) for x in layers])
        unit = getattr(mod, 'UnitTests', None)
        if unit is not None and any(x is unit for x in result) and \
                result[0] is not unit:
            ok = False
            violation('order_by_bases.unit_not_first',
                      result=[_lname(x) for x in result])
        pos = {id(x): i for i, x in enumerate(result)}
        for b in result:
            for a in closure(b)[1:]:
                if id(a) in pos and pos[id(a)] > pos[id(b)]:
                    ok = False
                    violation('order_by_bases.base_after_derived',
                              base=_lname(a), derived=_lname(b))
        return ok
    mod.order_by_bases = ensure(post_order)(orig_order)

    # resume_tests: report poll counters when it returns
    orig_resume = mod.resume_tests
    _YIELD_TARGETS[:] = [
        mod.spawn_layer_in_subprocess.__code__, orig_resume.__code__,
        mod.DeferredSubprocessResult.write.__code__,
        mod.KeepaliveSubprocessResult.write.__code__,
        mod.ImmediateSubprocessResult.write.__code__]

    def resume_tests(*a, **kw):
        try:
            return orig_resume(*a, **kw)
        finally:
            st = _PopenState
            emit('resume.done', polls=st.polls, max_alive=st.max_alive,
                 spawned=st.spawned, alive=st.alive)
    mod.resume_tests = resume_tests


# ------------------------------------------------ yield injection (C06/C07)

_YIELD_TARGETS = []
_YIELD_TOOL = 4


def enable_yield_injection(seed, max_ms=2.0, p=0.25):
    """sys.monitoring LINE callback restricted to the parent's
    subprocess-handling code objects: sleeps 0..max_ms at statement starts
    of preemptible threads (diversifies thread interleavings)."""
    mon = getattr(sys, 'monitoring', None)
    if mon is None or not _YIELD_TARGETS:
        return False
    import random
    import time
    rng = random.Random(seed)
    lock = threading.Lock()

    def cb(code, line):
        with lock:
            COUNTERS['yield.lines'] = COUNTERS.get('yield.lines', 0) + 1
            r = rng.random()
            d = rng.random() * max_ms / 1000.0
        if r < p:
            time.sleep(d)
    try:
        mon.use_tool_id(_YIELD_TOOL, 'ztr-yield')
    except ValueError:
        pass
    mon.register_callback(_YIELD_TOOL, mon.events.LINE, cb)
    for code in _YIELD_TARGETS:
        mon.set_local_events(_YIELD_TOOL, code, mon.events.LINE)
    return True


def disable_yield_injection():
    mon = getattr(sys, 'monitoring', None)
    if mon is None:
        return
    try:
        for code in _YIELD_TARGETS:
            mon.set_local_events(_YIELD_TOOL, code, 0)
        mon.register_callback(_YIELD_TOOL, mon.events.LINE, None)
        mon.free_tool_id(_YIELD_TOOL)
    except ValueError:
        pass


def _lname(layer):
    return getattr(layer, '__name__', repr(layer))


# -------------------------------------------------------------------- filter

def _model_selected(patterns, value):
    pos = [p for p in patterns if not p.startswith('!')]
    neg = [p[1:] for p in patterns if p.startswith('!')]
    if not pos and neg:
        ok = True
    else:
        ok = any(re.search(p, value) for p in pos)
    return bool(ok and not any(re.search(p, value) for p in neg))


def _wrap_bff(orig):
    def build_filtering_func(patterns):
        pats = list(patterns)
        accept = orig(pats)

        def monitored_accept(value):
            res = accept(value)
            count('eval.accept')
            try:
                want = _model_selected(pats, value)
                if bool(res) != want:
                    violation('filter.accept', patterns=pats, value=value,
                              got=bool(res), want=want)
            except re.error:
                pass
            return res
        return monitored_accept
    build_filtering_func.__wrapped_by_ztr__ = True
    build_filtering_func.__wrapped__ = orig
    return build_filtering_func


@on_import('zope.testrunner.filter')
def _patch_filter(mod):
    mod.build_filtering_func = _wrap_bff(mod.build_filtering_func)


@on_import('zope.testrunner.find')
def _patch_find(mod):
    # ``from zope.testrunner.filter import build_filtering_func`` captured
    # a reference at import time: rebind it here as well.
    f = mod.build_filtering_func
    if not getattr(f, '__wrapped_by_ztr__', False):
        mod.build_filtering_func = _wrap_bff(f)
    # enumeration-order fault: with ZTR_WALK_SHUFFLE=<seed> the code under
    # test sees directory listings in a scrambled order
    import random
    real_os = mod.os

    def walk(top, *a, **kw):
        seed = os.environ.get('ZTR_WALK_SHUFFLE')
        if not seed:
            yield from real_os.walk(top, *a, **kw)
            return
        rng = random.Random(int(seed))
        count('walk.shuffled')
        for dirpath, dirs, files in real_os.walk(top, *a, **kw):
            rng.shuffle(dirs)
            rng.shuffle(files)
            yield dirpath, dirs, files
    mod.os = _ModuleProxy(real_os, walk=walk)


# ------------------------------------------------------------------- shuffle

@on_import('zope.testrunner.shuffle')
def _patch_shuffle(mod):
    cls = mod.Shuffle
    orig = cls.global_setup

    def hostile_rng_user():
        """Another thread of the process (started by a test module at
        import, say) uses the module-level ``random`` functions while the
        shuffle runs; a LINE callback on the shuffling code hands the GIL
        over at statement starts, so the two really interleave.  The order
        must depend on the seed only."""
        import random
        import time
        stop = []

        def spin():
            while not stop:
                random.random()
                random.seed()
        th = threading.Thread(target=spin, name='ztr-rng-user')
        th.daemon = True
        th.start()
        mon = getattr(sys, 'monitoring', None)
        tool = 3
        armed = False
        if mon is not None:
            try:
                mon.use_tool_id(tool, 'ztr-shuffle-yield')

                def cb(code, line):
                    count('shuffle.yields')
                    time.sleep(0.0002)
                mon.register_callback(tool, mon.events.LINE, cb)
                mon.set_local_events(tool, orig.__code__, mon.events.LINE)
                armed = True
            except ValueError:
                pass

        def done():
            stop.append(1)
            th.join(5)
            if armed:
                try:
                    mon.set_local_events(tool, orig.__code__, 0)
                    mon.register_callback(tool, mon.events.LINE, None)
                    mon.free_tool_id(tool)
                except ValueError:
                    pass
        return done

    def global_setup(self):
        before = {k: sorted(str(t) for t in v)
                  for k, v in self.runner.tests_by_layer_name.items()}
        done = None
        if os.environ.get('ZTR_SHUFFLE_HOSTILE') == '1':
            done = hostile_rng_user()
            count('shuffle.hostile')
        try:
            r = orig(self)
        finally:
            if done is not None:
                done()
        count('eval.shuffle')
        after = {k: sorted(str(t) for t in v)
                 for k, v in self.runner.tests_by_layer_name.items()}
        if before != after:
            violation('shuffle.not_permutation',
                      layers=sorted(k for k in set(before) | set(after)
                                    if before.get(k) != after.get(k)))
        return r
    cls.global_setup = global_setup


# -------------------------------------------------------------------- digraph

@on_import('zope.testrunner.digraph')
def _patch_digraph(mod):
    cls = mod.DiGraph
    orig = cls.sccs

    def sccs(self, trivial=False):
        comps = []
        complete = False
        try:
            for c in orig(self, trivial):
                comps.append(list(c))
                yield c
            complete = True
        finally:
            if not complete:
                # an enumeration the caller abandoned: a prefix says nothing
                count('eval.sccs.abandoned')
            else:
                count('eval.sccs')
                try:
                    _check_sccs(self, comps, trivial)
                except Exception as e:
                    emit('monitor.error', where='sccs', err=repr(e))
    cls.sccs = sccs


def _check_sccs(g, comps, trivial):
    tr = g._transform_node
    nodes = set(g._nodes)
    if len(nodes) > 300:
        # the closure below is quadratic: big graphs are judged by the
        # check that built them (components known by construction)
        count('eval.sccs.large_skipped')
        return
    nb = {n: set(g._neighbors.get(n, ())) & nodes for n in nodes}
    # reachability closure
    reach = {}
    for s in nodes:
        seen = set()
        stack = list(nb[s])
        while stack:
            x = stack.pop()
            if x in seen:
                continue
            seen.add(x)
            stack.extend(nb[x])
        reach[s] = seen
    want = {}
    for n in nodes:
        comp = frozenset([n] + [m for m in reach[n] if n in reach[m]])
        want[comp] = True
    want_set = set(want)
    if not trivial:
        want_set = {c for c in want_set
                    if len(c) > 1 or next(iter(c)) in nb[next(iter(c))]}
    got = [frozenset(tr(x) for x in c) for c in comps]
    if len(got) != len(set(got)) or set(got) != want_set or \
            any(len(c) != len(fc) for c, fc in zip(comps, got)):
        violation('sccs.wrong', got=[sorted(map(str, c)) for c in got],
                  want=[sorted(map(str, c)) for c in want_set],
                  trivial=trivial)


# ---------------------------------------------------------- child report cut

class _CutStream:
    """Only the first K bytes of the report reach the parent.

    The real report code runs to its end (so the total length is known);
    the wrapper then ends the process at once: for the parent this is a child
    that died after writing K bytes of its report."""

    def __init__(self, real, limit):
        self.real = real
        self.limit = limit
        self.total = 0

    def write(self, s):
        data = s.encode('utf-8', 'backslashreplace')
        room = self.limit - self.total
        if room > 0:
            os.write(self.real.fileno(), data[:room])
        self.total += len(data)
        return len(s)

    def flush(self):
        pass


class _HoldStream:
    """The first write to the report stream passes the observable point
    'report.stderr': the child has closed its stdout by then, the report is
    still to come (a child whose stderr ends later than its stdout)."""

    def __init__(self, real, world):
        self.real = real
        self.world = world
        self.passed = False

    def write(self, s):
        if not self.passed:
            self.passed = True
            try:
                self.world.point('report.stderr')
            except Exception:
                pass
        return self.real.write(s)

    def __getattr__(self, k):
        return getattr(self.real, k)


@on_import('zope.testrunner.process')
def _patch_process(mod):
    cls = mod.SubProcess
    orig = cls.report

    def report(self):
        import vworld_rt
        try:
            w = vworld_rt._load_world()
            w.point('report')
            if any(h.get('point') == 'report.stderr' for h in w.holds):
                self.original_stderr = _HoldStream(self.original_stderr, w)
        except Exception:
            pass
        cut = os.environ.get('ZTR_REPORT_CUT')
        only = os.environ.get('ZTR_REPORT_CUT_LAYER')
        if only and only != self.runner.options.resume_layer:
            cut = None
        stream = None
        if cut is not None:
            stream = _CutStream(self.original_stderr, int(cut))
            self.original_stderr = stream
        emit('child.report', ran=self.runner.ran,
             layer=self.runner.options.resume_layer,
             nfail=len(self.runner.failures), nerr=len(self.runner.errors),
             nskip=len(self.runner.skipped),
             fails=[str(t)[:300] for t, _ in self.runner.failures][:60],
             errs=[str(t)[:300] for t, _ in self.runner.errors][:60])
        try:
            return orig(self)
        finally:
            if stream is not None:
                emit('report.cut', at=stream.limit, total=stream.total,
                     layer=self.runner.options.resume_layer)
                os._exit(int(os.environ.get('ZTR_REPORT_CUT_RC', '0')))
    cls.report = report


# ------------------------------------------------------------------ audit hook

_AUDIT_EVENTS = ('os.remove', 'os.rmdir', 'os.rename', 'os.truncate',
                 'os.chmod', 'shutil.rmtree', 'os.unlink', 'open')


def _audit(event, args):
    if event not in _AUDIT_EVENTS:
        return
    root = os.environ.get('ZTR_AUDIT_ROOT')
    if not root:
        return
    try:
        if event == 'open':
            path, mode, flags = args
            if not isinstance(path, str) or not isinstance(mode, str):
                return
            if not any(c in mode for c in 'wax+'):
                return
            p = path
        else:
            p = args[0]
        if isinstance(p, bytes):
            p = p.decode('utf-8', 'replace')
        if not isinstance(p, str):
            return
        if root and not os.path.abspath(p).startswith(root):
            return
        emit('audit', ev=event, path=p)
    except Exception:
        pass


_audit_on = False


def enable_audit():
    """Install the audit hook (once per process; it cannot be removed, it
    is silent unless $ZTR_AUDIT_ROOT is set)."""
    global _audit_on
    if not _audit_on:
        _audit_on = True
        sys.addaudithook(_audit)


# ----------------------------------------------------------------- installation

_installed = False


def install():
    global _installed
    if _installed:
        return
    _installed = True
    sys.meta_path.insert(0, _Finder())
    for name, fns in _PATCHES.items():
        if name in sys.modules:
            for fn in fns:
                fn(sys.modules[name])
    if os.environ.get('ZTR_AUDIT') == '1':
        enable_audit()
    try:
        import faulthandler
        import signal
        if os.environ.get('ZTR_FAULT_FILE'):
            f = open(os.environ['ZTR_FAULT_FILE'] + '.%d' % os.getpid(), 'w')
            faulthandler.register(signal.SIGUSR1, file=f, all_threads=True)
            install._fault_file = f
    except Exception:
        pass
    if os.environ.get('ZTR_TRACE') and os.environ.get('ZTR_PROC_EVENTS'):
        emit('proc.start', ppid=os.getppid(), argv=sys.argv[:4])

        def _exit():
            emit('proc.exit', counters=dict(COUNTERS))
        atexit.register(_exit)
