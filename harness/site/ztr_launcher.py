"""Launcher used as args[0]: parent and children run the real entry point.

$ZTR_DEFAULTS (a JSON list) is passed as the script's default options, the way
a generated bin/test script does; the parent hands them on to its children
itself (--default ...), so only a process that is not a resumed child reads
the variable."""
import json
import os
import sys

if __name__ == '__main__':
    from zope.testrunner import run
    d = os.environ.get('ZTR_DEFAULTS')
    if d and '--resume-layer' not in sys.argv[1:2]:
        run(defaults=json.loads(d))
    else:
        run()
