"""Launcher used as args[0]: parent and children run the real entry point."""
import sys

if __name__ == '__main__':
    from zope.testrunner import run
    run()
