"""A scripted stand-in for a layer subprocess (C07).

The real parent spawns ``python ztr_fake_child.py --resume-layer <layer> <n>
...``; what this process writes to its stdout / stderr, in which order, how
it closes them and how it ends is read from $ZTR_FAKE_SCENARIO (JSON:
{layer: {"steps": [...], "exit": code | "signal": n}})."""
import base64
import json
import os
import signal
import sys
import time


def main():
    layer = sys.argv[2] if len(sys.argv) > 2 else ''
    with open(os.environ['ZTR_FAKE_SCENARIO']) as f:
        sc = json.load(f)
    spec = sc.get(layer) or sc.get('*') or {'steps': []}
    try:
        import vtrace
        vtrace.emit('fake.start', layer=layer)
    except Exception:
        pass
    for st in spec.get('steps', []):
        if 'data' in st:
            data = base64.b64decode(st['data'])
            fd = st.get('fd', 2)
            for _ in range(st.get('repeat', 1)):
                view = memoryview(data)
                while view:
                    try:
                        n = os.write(fd, view[:65536])
                    except OSError:
                        n = len(view)
                    view = view[n:]
        elif 'close' in st:
            try:
                os.close(st['close'])
            except OSError:
                pass
        elif 'sleep' in st:
            time.sleep(st['sleep'])
    if spec.get('signal'):
        try:
            signal.signal(spec['signal'], signal.SIG_DFL)
        except (OSError, ValueError):
            pass        # SIGKILL cannot (and need not) be reset
        os.kill(os.getpid(), spec['signal'])
        time.sleep(5)
    os._exit(int(spec.get('exit', 0)))


if __name__ == '__main__':
    main()
