"""Append-only, cross-process event trace (the monitors' facts).

One JSON line per event, written with a single os.write on an O_APPEND
descriptor, so lines from different processes never interleave.
"""
import json
import os
import threading
import time

_lock = threading.Lock()
_seq = 0
_fd = None
_fd_path = None
_fd_pid = None


def trace_path():
    return os.environ.get('ZTR_TRACE')


def _get_fd():
    global _fd, _fd_path, _fd_pid
    path = trace_path()
    if not path:
        return None
    pid = os.getpid()
    if _fd is None or _fd_path != path or _fd_pid != pid:
        if _fd is not None and _fd_pid == pid:
            try:
                os.close(_fd)
            except OSError:
                pass
        _fd = os.open(path, os.O_WRONLY | os.O_APPEND | os.O_CREAT, 0o644)
        _fd_path = path
        _fd_pid = pid
    return _fd


# while a test of the world runs the test runner itself, what that inner
# run's formatter says is not part of the outer run's history
mute_claims = False


def emit(kind, **fields):
    global _seq
    if mute_claims and kind.startswith('claim.'):
        return
    with _lock:
        fd = _get_fd()
        if fd is None:
            return
        _seq += 1
        rec = {'k': kind, 'pid': os.getpid(), 'seq': _seq,
               't': time.monotonic_ns()}
        rec.update(fields)
        try:
            data = json.dumps(rec, ensure_ascii=True,
                              separators=(',', ':'), default=repr)
        except Exception:
            data = json.dumps({'k': kind, 'pid': os.getpid(), 'seq': _seq,
                               'bad': True})
        os.write(fd, data.encode('ascii') + b'\n')


def reset():
    """Close the descriptor (the harness switches trace files per case)."""
    global _fd, _fd_path
    with _lock:
        if _fd is not None:
            try:
                os.close(_fd)
            except OSError:
                pass
        _fd = None
        _fd_path = None


def read(path):
    events = []
    try:
        with open(path, 'rb') as f:
            for line in f:
                line = line.strip()
                if not line:
                    continue
                try:
                    events.append(json.loads(line))
                except ValueError:
                    events.append({'k': 'corrupt', 'raw': repr(line[:80])})
    except FileNotFoundError:
        pass
    return events
