"""CLI parent whose layer subprocesses are the scripted fake child."""
import os
import sys

if __name__ == '__main__':
    from zope.testrunner import run
    here = os.path.dirname(os.path.abspath(__file__))
    run(script_parts=[os.path.join(here, 'ztr_fake_child.py')])
