"""Runtime side of generated test worlds.

A world is a directory tree of tiny stub modules plus ``world.json``.  Every
stub calls into this module, which builds *real* unittest classes, suites and
layer objects from the JSON spec and makes all of them report what happens to
the trace (vtrace).  The spec is found through $ZTR_WORLD (inherited by the
runner's child processes); an optional overlay $ZTR_PLAN changes the behaviour
of hooks/tests without touching the tree.
"""
import json
import os
import signal
import sys
import threading
import time
import unittest

import vtrace

emit = vtrace.emit

_worlds = {}

# set by the in-process harness; None in child processes
ORIG_STDOUT = None
ORIG_STDERR = None


# --------------------------------------------------------------- exceptions

class NeedsArgs(Exception):
    def __init__(self, a, b):
        Exception.__init__(self, a, b)
        self.a = a
        self.b = b


class HostileStr(Exception):
    def __str__(self):
        raise RuntimeError('hostile __str__')

    def __repr__(self):
        raise RuntimeError('hostile __repr__')


class Unhashable(Exception):
    """Defines __eq__ by value, so instances are not hashable (a dataclass
    style exception)."""

    def __init__(self, msg):
        Exception.__init__(self, msg)
        self.msg = msg

    def __eq__(self, other):
        return isinstance(other, Unhashable) and other.msg == self.msg


class AlwaysEqual(Exception):
    """Compares equal to everything."""

    def __eq__(self, other):
        return True

    def __hash__(self):
        return 1


class FalsyError(Exception):
    """An exception object that is false (len() == 0)."""

    def __len__(self):
        return 0


class CustomBase(Exception):
    pass


class CustomDerived(CustomBase):
    pass


class BoomError(ArithmeticError):
    """Raised by faulty hooks."""


def make_exc(name, msg=None):
    if msg is None:
        msg = 'injected'
    if name == 'NeedsArgs':
        return NeedsArgs(msg, 42)
    if name == 'HostileStr':
        return HostileStr(msg)
    if name == 'CustomDerived':
        return CustomDerived(msg)
    if name == 'Unhashable':
        return Unhashable(msg)
    if name == 'UnhashableChained':
        try:
            try:
                raise Unhashable('inner ' + msg)
            except Unhashable as e:
                raise Unhashable('outer ' + msg) from e
        except Unhashable as e2:
            return e2
    if name == 'AlwaysEqual':
        return AlwaysEqual(msg)
    if name == 'FalsyError':
        return FalsyError(msg)
    if name == 'BoomError':
        return BoomError(msg)
    if name == 'Chained':
        try:
            try:
                raise KeyError('inner ' + msg)
            except KeyError as e:
                raise ValueError('outer ' + msg) from e
        except ValueError as e2:
            return e2
    if name == 'Context':
        try:
            try:
                raise KeyError('ctx ' + msg)
            except KeyError:
                raise RuntimeError('during ' + msg)
        except RuntimeError as e2:
            return e2
    if name == 'Group':
        if sys.version_info >= (3, 11):
            return ExceptionGroup(msg, [ValueError('g1'), TypeError('g2')])  # noqa
        return ValueError(msg)
    if name == 'UnicodeEncodeError':
        return UnicodeEncodeError('ascii', '\xe9', 0, 1, msg)
    if name == 'OSError':
        return OSError(5, msg)
    import builtins
    cls = getattr(builtins, name, None)
    if cls is None or not isinstance(cls, type) or \
            not issubclass(cls, BaseException):
        cls = RuntimeError
    try:
        return cls(msg)
    except Exception:
        return RuntimeError(msg)


# ------------------------------------------------------------------- world

def _load_world():
    path = os.environ.get('ZTR_WORLD')
    if not path:
        raise RuntimeError('ZTR_WORLD not set')
    plan_path = os.environ.get('ZTR_PLAN') or ''
    key = (path, plan_path)
    w = _worlds.get(key)
    if w is None:
        with open(path) as f:
            spec = json.load(f)
        plan = {}
        if plan_path and os.path.exists(plan_path):
            with open(plan_path) as f:
                plan = json.load(f)
        w = World(spec, plan)
        _worlds.clear()
        _worlds[key] = w
    return w


def forget_worlds():
    _worlds.clear()
    _STARTED[0] = 0


class World:
    def __init__(self, spec, plan):
        self.spec = spec
        self.plan = plan or {}
        self.layers = {}      # short name -> layer object
        self.layer_specs = {ls['name']: ls for ls in spec.get('layers', [])}
        for name, ov in (self.plan.get('layers') or {}).items():
            if name in self.layer_specs:
                ls = dict(self.layer_specs[name])
                hooks = dict(ls.get('hooks') or {})
                hooks.update(ov)
                ls['hooks'] = hooks
                self.layer_specs[name] = ls
        self.test_over = self.plan.get('tests') or {}
        self.crash = self.plan.get('crash') or spec.get('crash')
        self.holds = self.plan.get('holds') or spec.get('holds') or []
        self.layers_module = spec.get('layers_module')
        self.is_child = '--resume-layer' in sys.argv[1:2]
        self.child_layer = sys.argv[2] if self.is_child and \
            len(sys.argv) > 2 else None

    # -- crash / barrier points ------------------------------------------
    def point(self, name):
        """Called at every observable point; may hold or crash here."""
        for h in self.holds:
            if h.get('point') == name and \
                    (not h.get('child_only') or self.is_child) and \
                    (not h.get('layer') or h['layer'] == self.child_layer):
                do_hold(h)
        c = self.crash
        if c and c.get('at') == name and \
                (not c.get('child_only', True) or self.is_child) and \
                (not c.get('child_only', True) or self.is_child):
            do_crash(c.get('how', 'exit3'), name)


def do_hold(h):
    mdir = os.environ.get('ZTR_MARKERS')
    if not mdir:
        return
    for m in h.get('set', []):
        try:
            open(os.path.join(mdir, m), 'w').close()
        except OSError:
            pass
    need = h.get('wait_for', [])
    deadline = time.monotonic() + float(h.get('timeout', 60))
    n = 0
    while need:
        need = [m for m in need
                if not os.path.exists(os.path.join(mdir, m))]
        if not need:
            break
        if time.monotonic() > deadline:
            emit('barrier.timeout', point=h.get('point'), missing=need)
            return
        time.sleep(0.002)
        n += 1
    for m in h.get('set_after', []):
        try:
            open(os.path.join(mdir, m), 'w').close()
        except OSError:
            pass
    emit('barrier.pass', point=h.get('point'), polls=n)


def do_crash(how, where):
    emit('crash', how=how, at=where)
    try:
        sys.stdout.flush()
    except Exception:
        pass
    if how == 'exit0':
        os._exit(0)
    if how == 'exit3':
        os._exit(3)
    if how == 'SIGKILL':
        os.kill(os.getpid(), signal.SIGKILL)
    if how == 'SIGSEGV':
        signal.signal(signal.SIGSEGV, signal.SIG_DFL)
        os.kill(os.getpid(), signal.SIGSEGV)
    if how == 'SIGTERM':
        signal.signal(signal.SIGTERM, signal.SIG_DFL)
        os.kill(os.getpid(), signal.SIGTERM)
    if how == 'sysexit':
        raise SystemExit(7)
    if how == 'sysexit0':
        raise SystemExit(0)
    if how == 'kbint':
        raise KeyboardInterrupt()
    os._exit(9)


# ------------------------------------------------------------------ actions

_thread_events = {}
_thread_ledger = []
_ATEXIT_DONE = {}
_CHATTER = {}
_STARTED = [0]


def _stream(name):
    if name == 'stdout':
        return sys.stdout
    if name == 'stderr':
        return sys.stderr
    if name == '__stdout__':
        return sys.__stdout__
    if name == '__stderr__':
        return sys.__stderr__
    return None


def run_actions(actions, phase, ctx):
    for a in actions or ():
        if a.get('ph', 'body') != phase:
            continue
        do = a.get('do')
        if do == 'write':
            st = a.get('stream', 'stdout')
            text = a.get('text', '')
            if st in ('fd1', 'fd2'):
                try:
                    os.write(1 if st == 'fd1' else 2,
                             text.encode('utf-8', 'replace') +
                             bytes.fromhex(a.get('tail_hex', '')))
                except OSError:
                    pass
            elif st.endswith('.buffer'):
                s = _stream(st[:-7])
                buf = getattr(s, 'buffer', None)
                if buf is not None:
                    # tail_hex: bytes that are not valid in any text
                    # encoding (what a test dumping binary data writes)
                    buf.write(text.encode('utf-8', 'replace') +
                              bytes.fromhex(a.get('tail_hex', '')))
                    try:
                        buf.flush()
                    except Exception:
                        pass
                else:
                    s.write(text)
            else:
                s = _stream(st)
                if s is not None:
                    s.write(text)
                    if a.get('flush'):
                        s.flush()
        elif do == 'print':
            print(a.get('text', ''))
        elif do == 'thread':
            start_thread(a, ctx)
        elif do == 'release':
            release_thread(a['ev'], a.get('wait_gone', True))
        elif do == 'touch_thread':
            rec = _thread_events.get(a['ev'])
            if rec is not None and rec.get('touch_ev') is not None and \
                    not rec.get('released'):
                rec['touch_ev'].set()
                deadline = time.monotonic() + 5
                while not rec.get('touched') and \
                        time.monotonic() < deadline:
                    time.sleep(0.0005)
                emit('thread.touched', key=a['ev'], ok=bool(
                    rec.get('touched')))
        elif do == 'rename_thread':
            # a long-lived worker that renames itself per job (pool threads)
            rec = _thread_events.get(a['ev'])
            if rec is not None and rec.get('thread') is not None and \
                    not rec.get('released'):
                rec['thread'].name = a['name']
                emit('thread.rename', key=a['ev'], name=a['name'], ctx=ctx)
        elif do == 'garbage':
            make_garbage(a)
        elif do == 'uncollectable':
            # what an uncollectable object (or gc.DEBUG_SAVEALL) leaves
            import gc
            gc.garbage.append(Node(a.get('tag', 'leftover')))
        elif do == 'sleep':
            time.sleep(a.get('s', 0.01))
        elif do == 'probe_streams':
            emit('probe.streams', where=phase, ctx=ctx,
                 out_is_orig=(sys.stdout is ORIG_STDOUT)
                 if ORIG_STDOUT is not None else None,
                 err_is_orig=(sys.stderr is ORIG_STDERR)
                 if ORIG_STDERR is not None else None)
        elif do == 'spawn_helper':
            # a helper process that inherits the real stderr (not stdout)
            # and outlives the layer subprocess: the parent sees the end of
            # the child's stderr only when the helper is gone.  Only inside
            # processes the runner spawned.
            if '--resume-layer' in sys.argv:
                import subprocess
                subprocess.Popen(
                    [sys.executable, '-S', '-c',
                     'import time; time.sleep(%r)' % float(a.get('s', 12))],
                    stdin=subprocess.DEVNULL, stdout=subprocess.DEVNULL,
                    env={}, close_fds=True)
                emit('helper.spawned', ctx=ctx, s=a.get('s', 12))
        elif do == 'drop_sys_path':
            # a test that cleans sys.path of everything below the world
            # (tests that juggle sys.path and do not put it back)
            root = os.path.dirname(os.environ.get('ZTR_WORLD', ''))
            if root:
                sys.path[:] = [x for x in sys.path
                               if not x.startswith(root)]
        elif do == 'chdir':
            # a test that works in a scratch directory and does not go back
            # (path relative to the world's root)
            root = os.path.dirname(os.environ.get('ZTR_WORLD', ''))
            d = os.path.join(root, a.get('path', 'work'))
            os.makedirs(d, exist_ok=True)
            os.chdir(d)
            emit('chdir', ctx=ctx, to=a.get('path', 'work'))
        elif do == 'write_file':
            path = a['path']
            if not os.path.isabs(path):
                # relative to the world's root directory
                path = os.path.join(os.path.dirname(
                    os.environ.get('ZTR_WORLD', '')), path)
                os.makedirs(os.path.dirname(path), exist_ok=True)
            with open(path, 'w') as f:
                f.write(a.get('text', ''))
            emit('file.written', ctx=ctx, path=a['path'])
        elif do == 'mutate_argv':
            # a test that drives a main() through sys.argv and changes the
            # list in place without putting it back
            sys.argv[1:] = ['--mutated-by-a-test', 'zzz']
        elif do == 'swap_stream':
            # a test that installs its own StringIO as sys.stdout / sys.stderr
            # and forgets to put the old stream back
            import io
            if a.get('stream') == 'stderr':
                sys.stderr = io.StringIO()
            else:
                sys.stdout = io.StringIO()
        elif do == 'stderr_chatter':
            # a worker thread that logs to sys.stderr (whatever object that
            # is at the moment) every few microseconds for a while: started
            # now, it goes on for `for_s` seconds after the action
            # 'stderr_chatter_go' (e.g. in the layer's tearDown) and then
            # ends by itself (not a daemon: the interpreter waits for it)
            st = _CHATTER.setdefault(a.get('key', 'c'), {
                'go': threading.Event(), 'n': 0})
            line = a.get('text', 'worker: still alive\n')
            dur = float(a.get('for_s', 0.25))
            try:
                sys.setswitchinterval(1e-5)
            except Exception:
                pass

            def chatter(st=st, line=line, dur=dur):
                if not st['go'].wait(30):
                    return
                end = time.monotonic() + dur
                while time.monotonic() < end:
                    try:
                        f = sys.stderr
                        f.write(line)
                        f.flush()
                        st['n'] += 1
                    except Exception:
                        pass
                    time.sleep(0)
            t = threading.Thread(target=chatter, name='ign-chatter')
            t.start()
            emit('chatter.started', key=a.get('key', 'c'))
        elif do == 'stderr_chatter_go':
            st = _CHATTER.get(a.get('key', 'c'))
            if st is not None:
                st['go'].set()
                emit('chatter.go', key=a.get('key', 'c'))
        elif do == 'atexit_write':
            # something that writes to the real stderr when the interpreter
            # shuts down (atexit hook, logging.shutdown, "Exception ignored
            # in ...") - i.e. AFTER a layer subprocess has sent its report.
            # Only in processes the runner itself spawned, never in the
            # harness process.
            if '--resume-layer' in sys.argv and \
                    not _ATEXIT_DONE.get(a.get('text')):
                import atexit
                _ATEXIT_DONE[a.get('text')] = True
                data = a.get('text', 'bye\n').encode('utf-8')
                atexit.register(lambda: os.write(2, data))
                emit('atexit.registered', ctx=ctx)
        elif do == 'warn_filter':
            # what a test (or the code it imports) does to the process-wide
            # warnings filters
            import warnings
            warnings.filterwarnings('ignore', message=a.get('msg', 'vw-x'))
            if a.get('simple'):
                warnings.simplefilter(a['simple'])
        elif do == 'use_hooks':
            # a test that uses the interpreter's trace / profile hooks
            # itself, the way trace.Trace.runfunc, bdb.Bdb.runcall,
            # pdb.runcall or profile.Profile.runcall do: install, call,
            # take away again ('none': with settrace(None), as the stdlib
            # does; 'saved': by putting back what was there before)
            import threading as _th

            def _tf(frame, event, arg):
                return None

            def _pf(frame, event, arg):
                return None

            def _callee():
                return len(str(a))

            for which in a.get('which', ['trace']):
                if which == 'trace':
                    get, set_ = sys.gettrace, sys.settrace
                elif which == 'profile':
                    get, set_ = sys.getprofile, sys.setprofile
                elif which == 'threading_trace':
                    get = getattr(_th, 'gettrace', lambda: None)
                    set_ = _th.settrace
                else:
                    get = getattr(_th, 'getprofile', lambda: None)
                    set_ = _th.setprofile
                saved = get()
                set_(_pf if 'profile' in which else _tf)
                try:
                    _callee()
                finally:
                    # (sys.settrace is looked up again: the runner may have
                    # put a function of its own there)
                    if which == 'trace':
                        set_ = sys.settrace
                    set_(saved if a.get('how') == 'saved' else None)
            emit('hooks.used', ctx=ctx, which=a.get('which'),
                 how=a.get('how'))
        elif do == 'nested_run':
            nested_run(a, ctx)
        elif do == 'probe_state':
            emit('probe.state', where=phase, ctx=ctx, **probe_state())
        elif do == 'raise_base':
            # BaseException that is not an Exception (C18)
            if a.get('exc') == 'KeyboardInterrupt':
                raise KeyboardInterrupt()
            raise SystemExit(a.get('code', 5))


_NESTED = [0]

NESTED_MODULE = """import unittest


class TestInner(unittest.TestCase):

    def test_a(self):
        self.assertEqual(1, 1)

    def test_b(self):
        pass

    def test_c(self):
        self.assertTrue(%(ok)r)
"""


def nested_run(a, ctx):
    """A test that runs the test runner itself, in this process, over a
    little tree of its own and with its output captured - what the doctests
    of the runner, of runner plug-ins and of "test my test helpers" packages
    do.  The interpreter-global state is compared around the inner run."""
    import io
    import shutil
    import tempfile
    _NESTED[0] += 1
    base = os.path.dirname(os.path.dirname(
        os.environ.get('ZTR_WORLD') or '')) or None
    d = tempfile.mkdtemp(prefix='nested-', dir=base)
    name = 'zin%d_%d' % (os.getpid(), _NESTED[0])
    with open(os.path.join(d, name + '.py'), 'w') as f:
        f.write(NESTED_MODULE % {'ok': not a.get('fail')})
    argv = ['--path', d, '--tests-pattern', '^%s$' % name] + \
        list(a.get('argv') or [])
    import zope.testrunner
    before = probe_state_full()
    out = io.StringIO()
    saved = sys.stdout, sys.stderr
    sys.stdout = out
    if a.get('capture_stderr', True):
        sys.stderr = out
    failed = raised = None
    import vtrace as _vt
    _vt.mute_claims = True
    try:
        try:
            failed = zope.testrunner.run_internal(argv, ['inner'])
        except BaseException as e:     # noqa: reported, not swallowed
            raised = repr(e)
    finally:
        _vt.mute_claims = False
        sys.stdout, sys.stderr = saved
        sys.modules.pop(name, None)
        shutil.rmtree(d, ignore_errors=True)
    after = probe_state_full()
    diff = sorted(k for k in before if before[k] != after.get(k))
    text = out.getvalue()
    emit('nested.run', ctx=ctx, argv=argv[4:], failed=failed, raised=raised,
         want_failed=bool(a.get('fail')), state_diff=diff,
         diff_detail={k: [str(before[k])[:120], str(after.get(k))[:120]]
                      for k in diff},
         ran_line=[ln.strip() for ln in text.splitlines()
                   if ln.strip().startswith('Ran ')][:2])


def probe_state_full():
    """The state C18 names, by value / identity (compared inside one
    process only)."""
    import gc
    import traceback
    import warnings
    s = {
        'gc_threshold': gc.get_threshold(),
        'gc_debug': gc.get_debug(),
        'tb_format': id(traceback.format_exception),
        'tb_print': id(traceback.print_exception),
        'trace': repr(sys.gettrace()),
        'profile': repr(sys.getprofile()),
        'filters': [repr(f) for f in warnings.filters],
        'showwarning': id(warnings.showwarning),
        'stdout': id(sys.stdout),
        'stderr': id(sys.stderr),
    }
    if hasattr(threading, 'gettrace'):
        s['threading_trace'] = repr(threading.gettrace())
        s['threading_profile'] = repr(threading.getprofile())
    return s


def probe_state():
    import gc
    import traceback
    import warnings
    return {
        'gc_threshold': list(gc.get_threshold()),
        'gc_debug': gc.get_debug(),
        'tb_format': traceback.format_exception.__module__,
        'tb_print': traceback.print_exception.__module__,
        'trace': sys.gettrace() is not None,
        'profile': sys.getprofile() is not None,
        'nfilters': len(warnings.filters),
        'filters0': repr(warnings.filters[0]) if warnings.filters else None,
    }


# -- threads (C19) -----------------------------------------------------------

def _thread_body(ev, key):
    ev.wait()


class _QueueWorker(threading.Thread):
    def __len__(self):
        return 0


def start_thread(a, ctx):
    key = a['key']
    ev = threading.Event()
    started = threading.Event()
    rec = {'key': key, 'ev': ev, 'api': a.get('api', 'threading'),
           'name': a.get('name'), 'ident': None, 'test': ctx, 'thread': None}

    def body():
        rec['ident'] = threading.get_ident()
        if a.get('api') == '_thread_touch':
            # a low-level thread that uses the threading module (as logging
            # does): threading then knows it as a _DummyThread - and on
            # CPython < 3.13 keeps that entry after the thread has ended
            rec['name'] = threading.current_thread().name
        started.set()
        if a.get('api') == '_thread_late':
            # a low-level thread that starts to use the threading module
            # only later (its first log message, say), while a later test
            # is running: from then on threading knows it
            rec['touch_ev'].wait()
            if not rec.get('released'):
                threading.current_thread()
            rec['touched'] = True
        ev.wait()
        rec['finished'] = True

    if a.get('api') == '_thread_late':
        rec['touch_ev'] = threading.Event()
    if (a.get('api') or '').startswith('_thread'):
        import _thread
        rec['name'] = None      # such a thread has no name of its own
        _thread.start_new_thread(body, ())
    elif a.get('api') == 'timer':
        # threading.Timer: a Thread subclass with its own run(); it sits in
        # its interval until cancelled
        t = threading.Timer(3600, lambda: None)
        if a.get('name'):
            t.name = a['name']
        t.daemon = bool(a.get('daemon', True))
        t.start()
        rec['thread'] = t
        rec['ident'] = t.ident
        rec['cancel'] = t.cancel
        if a.get('name') is None:
            rec['name'] = t.name
        started.set()
    elif a.get('api') == 'threading_falsy':
        # a worker whose thread object is also a container (len(worker) =
        # jobs waiting): false while its queue is empty
        t = _QueueWorker(target=body, name=a.get('name'))
    else:
        t = threading.Thread(target=body, name=a.get('name'))
    if a.get('api') in (None, 'threading', 'threading_falsy'):
        t.daemon = bool(a.get('daemon', True))
        t.start()
        rec['thread'] = t
        if a.get('name') is None:
            rec['name'] = t.name
    started.wait(10)
    _thread_events[key] = rec
    if rec['name'] is None:
        rec['name'] = 'Dummy-%s' % rec['ident']
    emit('thread.start', key=key, api=rec['api'], name=rec['name'],
         ident=rec['ident'], test=ctx)


def release_thread(key, wait_gone=True):
    rec = _thread_events.get(key)
    if rec is None or rec.get('released'):
        return
    rec['released'] = True
    if rec.get('touch_ev') is not None:
        rec['touch_ev'].set()
    rec['ev'].set()
    if rec.get('cancel'):
        rec['cancel']()
    gone = None
    if wait_gone:
        deadline = time.monotonic() + 10
        if rec['thread'] is not None:
            rec['thread'].join(10)
        while time.monotonic() < deadline:
            if rec['ident'] not in sys._current_frames():
                gone = True
                break
            time.sleep(0.001)
        else:
            gone = False
    if gone and rec.get('cancel'):
        rec['finished'] = True
    freed = None
    if gone:
        # nobody keeps a thread object that has done its work: once it is
        # gone the world forgets it (the object is freed, its ident is free
        # for the next thread)
        import weakref
        wr = weakref.ref(rec['thread']) if rec['thread'] is not None else None
        rec['thread'] = None
        rec['cancel'] = None
        if wr is not None:
            rec['_wr'] = wr
            freed = wr() is None
            if not freed and os.environ.get('ZTR_DEBUG_THREADS'):
                import gc
                emit('thread.referrers', key=key, refs=[
                    type(r).__name__ + ':' + repr(r)[:200]
                    for r in gc.get_referrers(wr())][:6])
    emit('thread.release', key=key, gone=gone, ident=rec['ident'],
         freed=freed)


def thread_alive_report(ctx, where):
    """Ground truth sampled by the world itself."""
    # (the idents only: the mapping itself contains this very frame, a
    # local variable holding it is a reference cycle that keeps the frames -
    # and through them the objects - of all threads of that moment alive)
    frames = set(sys._current_frames())
    alive = []
    for key, rec in _thread_events.items():
        if rec['ident'] in frames and not rec.get('finished'):
            alive.append(key)
    # (objects of ended threads that something still holds on to)
    kept = []
    for key, rec in _thread_events.items():
        wr = rec.get('_wr')
        if wr is not None and wr() is not None:
            kept.append(key)
            if os.environ.get('ZTR_DEBUG_THREADS'):
                import gc
                out = [type(r).__name__ + ':' + repr(r)[:160]
                       for r in gc.get_referrers(wr())][:6]
                emit('thread.referrers', key=key, refs=out)
    emit('thread.alive', test=ctx, where=where, alive=sorted(alive),
         ended_but_kept=kept)


def _world_threads_running():
    """Is a thread started by start_thread() still executing its body?
    (recognised by the code object at the bottom of its stack, not by its
    ident: idents are recycled)"""
    for fr in list(sys._current_frames().values()):
        while fr.f_back is not None:
            fr = fr.f_back
        if fr.f_code.co_name == 'body' and \
                fr.f_code.co_filename == __file__:
            return True
    return False


def release_all_threads():
    for key in list(_thread_events):
        release_thread(key, wait_gone=False)
    for rec in _thread_events.values():
        if rec['thread'] is not None:
            rec['thread'].join(5)
    # low-level threads cannot be joined: wait until none of them is left,
    # otherwise a dying thread of this run is part of the next run's
    # "threads that existed before the test" and lends its ident to it
    deadline = time.monotonic() + 5
    while _world_threads_running() and time.monotonic() < deadline:
        time.sleep(0.001)
    _thread_events.clear()


# -- garbage (C20) ---------------------------------------------------------

class Node:
    def __init__(self, tag):
        self.tag = tag
        self.refs = []

    def __repr__(self):
        return 'Node<%s>' % self.tag


def make_garbage(a):
    """Leave cyclic garbage of a known shape: nodes + edges."""
    nodes = [Node('%s_%d' % (a.get('tag', 'g'), i))
             for i in range(a.get('n', 2))]
    for (i, j) in a.get('edges', []):
        nodes[i].refs.append(nodes[j])
    del nodes


# ------------------------------------------------------------------- layers

class InstLayer:
    """An instance layer: any object with __name__, __module__, __bases__."""

    def __init__(self, name, module, bases):
        self.__name__ = name
        self.__module__ = module
        self.__bases__ = tuple(bases)

    def __repr__(self):
        return '<InstLayer %s>' % self.__name__


class FalsyInstLayer(InstLayer):
    """An instance layer that is false: a layer object that is also the
    container of its resources (__len__) and still empty while the tests are
    being collected."""

    def __len__(self):
        return 0


def _hook_beh(hspec):
    if hspec is None:
        return 'ok', []
    if isinstance(hspec, str):
        return hspec, []
    return hspec.get('beh', 'ok'), hspec.get('actions', [])


def _run_layer_hook(world, lname, hook, inherited=False):
    ls = world.layer_specs.get(lname) or {}
    hspec = (ls.get('hooks') or {}).get(hook)
    beh, actions = _hook_beh(hspec)
    if inherited and hspec is None:
        beh, actions = 'ok', []
    if beh.startswith('nth:'):
        # 'nth:<k>:<behaviour>': behave that way on the k-th call only
        _x, k, rest = beh.split(':', 2)
        calls = world.__dict__.setdefault('hook_calls', {})
        calls[(lname, hook)] = calls.get((lname, hook), 0) + 1
        beh = rest if calls[(lname, hook)] == int(k) else 'ok'
    if hook == 'setUp' and 'streams' not in world.__dict__:
        # the stream objects that were there when the first layer of this
        # process was set up (in a layer subprocess these are not the
        # interpreter's own)
        world.streams = (sys.stdout, sys.stderr)
    if hook in ('setUp', 'tearDown'):
        emit('layer.%s.enter' % hook, layer=lname, inh=inherited)
        world.point('layer.%s:%s' % (hook, lname))
        try:
            run_actions(actions, 'body', 'layer:%s.%s' % (lname, hook))
            if beh == 'nie':
                raise NotImplementedError('cannot tear down %s' % lname)
            if beh.startswith('raise:'):
                raise make_exc(beh[6:], 'layer %s %s' % (lname, hook))
            if beh.startswith('base:'):
                if beh[5:] == 'KeyboardInterrupt':
                    raise KeyboardInterrupt()
                raise SystemExit(4)
        except BaseException as e:
            emit('layer.%s.exit' % hook, layer=lname, ok=False,
                 exc=type(e).__name__)
            raise
        emit('layer.%s.exit' % hook, layer=lname, ok=True)
    else:
        st = world.__dict__.get('streams')
        emit('layer.%s' % hook, layer=lname, inh=inherited,
             out_is_orig=(sys.stdout is ORIG_STDOUT)
             if ORIG_STDOUT is not None else None,
             err_is_orig=(sys.stderr is ORIG_STDERR)
             if ORIG_STDERR is not None else None,
             out_same=(sys.stdout is st[0]) if st else None,
             err_same=(sys.stderr is st[1]) if st else None)
        run_actions(actions, 'body', 'layer:%s.%s' % (lname, hook))
        if beh.startswith('raise:'):
            raise make_exc(beh[6:], 'layer %s %s' % (lname, hook))
        if beh.startswith('base:'):
            if beh[5:] == 'KeyboardInterrupt':
                raise KeyboardInterrupt()
            raise SystemExit(4)


def _class_hook(world, hook):
    def fn(cls):
        lname = cls.__name__
        own = hook in ((world.layer_specs.get(lname) or {}).get('hooks')
                       or {})
        _run_layer_hook(world, lname, hook, inherited=not own)
    fn.__name__ = hook
    return classmethod(fn)


def _inst_hook(world, lname, hook):
    def fn():
        _run_layer_hook(world, lname, hook)
    fn.__name__ = hook
    return fn


def _late_setup(world, per_test, owner):
    def fn(cls):
        lname = cls.__name__
        own = 'setUp' in ((world.layer_specs.get(lname) or {}).get('hooks')
                          or {})
        _run_layer_hook(world, lname, 'setUp', inherited=not own)
        if owner and cls is owner[0]:
            for h in per_test:
                setattr(cls, h, _class_hook(world, h))
            emit('layer.late_hooks', layer=lname, on=True)
    fn.__name__ = 'setUp'
    return classmethod(fn)


def _late_teardown(world, per_test, owner):
    def fn(cls):
        lname = cls.__name__
        own = 'tearDown' in ((world.layer_specs.get(lname) or {})
                             .get('hooks') or {})
        try:
            _run_layer_hook(world, lname, 'tearDown', inherited=not own)
        finally:
            if owner and cls is owner[0]:
                for h in per_test:
                    if h in cls.__dict__:
                        delattr(cls, h)
    fn.__name__ = 'tearDown'
    return classmethod(fn)


def _late_inst_hooks(world, layer, lname, per_test):
    def set_up():
        _run_layer_hook(world, lname, 'setUp')
        for h in per_test:
            setattr(layer, h, _inst_hook(world, lname, h))
        emit('layer.late_hooks', layer=lname, on=True)

    def tear_down():
        try:
            _run_layer_hook(world, lname, 'tearDown')
        finally:
            for h in per_test:
                layer.__dict__.pop(h, None)
    set_up.__name__ = 'setUp'
    tear_down.__name__ = 'tearDown'
    layer.setUp = set_up
    layer.tearDown = tear_down


def _layer_factory(name, bases, d):
    class Layer(*bases):
        pass
    for k, v in d.items():
        setattr(Layer, k, v)
    Layer.__name__ = name
    return Layer


def build_layers(modname):
    """Called by the world's layers module: returns its namespace."""
    world = _load_world()
    emit('mod.import', mod=modname, layers=True)
    ns = {}
    built = {}
    for ls in world.spec.get('layers', []):   # topologically ordered
        name = ls['name']
        bases = [built[b] if b in built else _special_layer(b)
                 for b in ls.get('bases', [])]
        hooks = (world.layer_specs[name].get('hooks') or {})
        # a layer that gets its per-test hooks when it is set up (bound
        # methods of the resource it opens: cls.testSetUp = conn.begin) and
        # loses them when it is torn down
        per_test = [h for h in ('testSetUp', 'testTearDown') if h in hooks]
        late = bool(ls.get('late_hooks') and per_test and
                    'setUp' in hooks and 'tearDown' in hooks)
        if ls.get('kind', 'class') == 'class':
            d = {'__module__': modname}
            for h in hooks:
                if late and h in per_test:
                    continue
                d[h] = _class_hook(world, h)
            if late:
                owner = []
                d['setUp'] = _late_setup(world, per_test, owner)
                d['tearDown'] = _late_teardown(world, per_test, owner)
            if ls.get('factory'):
                # layer classes out of a factory: one class statement inside
                # a function, renamed afterwards - they all share their
                # __qualname__ and differ in __name__ only
                layer = _layer_factory(name, tuple(bases) or (object,), d)
            else:
                layer = type(name, tuple(bases) or (object,), d)
            if late:
                owner.append(layer)
        else:
            # (pyname: the name the object shows to the runner; two layer
            # objects may share it, the world keeps its own keys)
            layer = (FalsyInstLayer if ls.get('falsy') else InstLayer)(
                ls.get('pyname') or name, modname, bases)
            for h in hooks:
                if late and h in per_test:
                    continue
                setattr(layer, h, _inst_hook(world, name, h))
            if late:
                _late_inst_hooks(world, layer, name, per_test)
        built[name] = layer
        ns[name] = layer
    world.layers = built
    return ns


def _special_layer(name):
    if name == 'UNIT':
        from zope.testrunner.layer import UnitTests
        return UnitTests
    raise KeyError(name)


def get_layer(world, name):
    if name == 'UNIT':
        return _special_layer(name)
    if name not in world.layers:
        import importlib
        importlib.import_module(world.layers_module)
    return world.layers[name]


# -------------------------------------------------------------------- tests

class _Ctx:
    pass


# how often each test has been executed in this process (tests whose
# outcome depends on the execution number: kinds_seq)
EXEC_COUNT = {}
RAN_IN_PROCESS = set()


def _tspec(self):
    ts = self.__class__._v_tests[self._testMethodName]
    k = self.__dict__.get('_v_kind')
    if k is not None and k != ts['kind']:
        ts = dict(ts, kind=k)
    return ts


def _effective_kind(self, ts, tid):
    """kinds_seq = [kind of the 1st execution in this process, of the 2nd,
    ...] (the last entry repeats): a test that fails only the first time,
    or only from the second --repeat iteration on."""
    dep = ts.get('fails_after')
    if dep:
        # a test whose outcome depends on the order: it fails when another
        # test of its class has been run before it in this process
        other = tid.rsplit('.', 1)[0] + '.' + dep
        kind = 'fail' if other in RAN_IN_PROCESS else 'pass'
        RAN_IN_PROCESS.add(tid)
        self._v_kind = kind
        return kind
    RAN_IN_PROCESS.add(tid)
    seq = ts.get('kinds_seq')
    if not seq:
        return ts['kind']
    n = EXEC_COUNT.get(tid, 0)
    EXEC_COUNT[tid] = n + 1
    kind = seq[min(n, len(seq) - 1)]
    self._v_kind = kind
    return kind


def _setUp(self):
    ts = self.__class__._v_tests[self._testMethodName]
    world = self.__class__._v_world
    tid = self.id()
    kind = _effective_kind(self, ts, tid)
    if ts.get('kinds_seq'):
        emit('test.setUp', id=tid, ek=kind,
             out_is_orig=(sys.stdout is ORIG_STDOUT)
             if ORIG_STDOUT is not None else None)
    else:
        emit('test.setUp', id=tid,
             out_is_orig=(sys.stdout is ORIG_STDOUT)
             if ORIG_STDOUT is not None else None)
    world.point('test.setUp:' + tid)
    self.addCleanup(_cleanup, self)
    if kind == 'cleanup_builtin_error':
        # a clean-up that is a C function, registered directly, and fails:
        # the traceback of that error has no frame of test code at all
        self.addCleanup(os.rmdir, os.path.join(
            os.sep, 'nonexistent-ztr', 'dir-of-' + self._testMethodName))
    if os.environ.get('ZTR_CHDIR_TESTS'):
        # ZTR_CHDIR_TESTS=<n>: the n-th test that starts in a process works
        # in a scratch directory and does not go back
        _STARTED[0] += 1
        if _STARTED[0] == int(os.environ['ZTR_CHDIR_TESTS']):
            run_actions([{'ph': 'setUp', 'do': 'chdir',
                          'path': 'work-%d' % os.getpid()}], 'setUp', tid)
    run_actions(ts.get('actions'), 'setUp', tid)
    if kind == 'skip_setup':
        self.skipTest('skipped in setUp')
    if kind == 'setup_error':
        raise make_exc(ts.get('exc', 'ValueError'), ts.get('msg'))
    if kind == 'setup_fail':
        self.fail(ts.get('msg') or 'setUp failure')


def _tearDown(self):
    ts = _tspec(self)
    world = self.__class__._v_world
    tid = self.id()
    emit('test.tearDown', id=tid)
    world.point('test.tearDown:' + tid)
    run_actions(ts.get('actions'), 'tearDown', tid)
    kind = ts['kind']
    if kind in ('teardown_error', 'body_teardown_error',
                'fail_teardown_error'):
        raise make_exc(ts.get('exc2', ts.get('exc', 'ValueError')),
                       (ts.get('msg') or 'injected') + ' in tearDown')


def _cleanup(self):
    ts = _tspec(self)
    tid = self.id()
    emit('test.cleanup', id=tid)
    run_actions(ts.get('actions'), 'cleanup', tid)
    if ts.get('threads_ledger'):
        thread_alive_report(tid, 'cleanup')
    kind = ts['kind']
    if kind in ('cleanup_error', 'body_cleanup_error'):
        raise make_exc(ts.get('exc2', ts.get('exc', 'ValueError')),
                       (ts.get('msg') or 'injected') + ' in cleanup')


def _make_method(ts):
    static_kind = ts['kind']

    def method(self):
        kind = self.__dict__.get('_v_kind') or static_kind
        tid = self.id()
        world = self.__class__._v_world
        emit('test.body', id=tid,
             out_is_orig=(sys.stdout is ORIG_STDOUT)
             if ORIG_STDOUT is not None else None)
        world.point('test.body:' + tid)
        run_actions(ts.get('actions'), 'body', tid)
        if kind in ('fail', 'fail_teardown_error'):
            self.fail(ts.get('msg') or 'injected failure')
        if kind in ('error', 'body_teardown_error', 'body_cleanup_error'):
            raise make_exc(ts.get('exc', 'ValueError'), ts.get('msg'))
        if kind == 'skip_body':
            self.skipTest('skipped in body')
        if kind == 'xfail':
            self.fail('expected to fail')
        if kind == 'subtests':
            for i, flavour in enumerate(ts.get('subs', ['F'])):
                sub_args = (ts['submsg'],) if ts.get('submsg') else ()
                with self.subTest(*sub_args, i=i,
                                  **(ts.get('subkw') or {})):
                    emit('test.sub', id=tid, i=i, fl=flavour)
                    run_actions(ts.get('actions'), 'sub%d' % i, tid)
                    if flavour == 'F':
                        self.fail('sub %d fails' % i)
                    elif flavour == 'E':
                        raise make_exc(ts.get('exc', 'ValueError'),
                                       'sub %d errors' % i)
                    elif flavour == 'S':
                        self.skipTest('sub %d skipped' % i)
        if kind == 'sysexit':
            raise SystemExit(3)
        if kind == 'kbint':
            raise KeyboardInterrupt()
        run_actions(ts.get('actions'), 'body_end', tid)

    method.__name__ = ts['name']
    if ts.get('doc'):
        method.__doc__ = ts['doc']
    kind = static_kind
    if kind == 'skip_deco':
        method = unittest.skip('skipped by decorator')(method)
    if kind in ('xfail', 'uxsuccess'):
        method = unittest.expectedFailure(method)
    return method


def _countTestCases(self):
    # a test case object that stands for several cases (ts['count'])
    return int(_tspec(self).get('count', 1))


def build_class(world, modname, cs):
    tests = {}
    d = {'__module__': modname, 'setUp': _setUp, 'tearDown': _tearDown,
         '_v_world': world}
    if any(t.get('count') for t in cs['tests']):
        d['countTestCases'] = _countTestCases
    if cs.get('qualname'):
        d['__qualname__'] = cs['qualname']
    for ts in cs['tests']:
        ts = dict(ts)
        tid = '%s.%s.%s' % (modname, cs['name'], ts['name'])
        ov = world.test_over.get(tid)
        if ov:
            ts.update(ov)
        tests[ts['name']] = ts
        d[ts['name']] = _make_method(ts)
    d['_v_tests'] = tests
    if cs.get('layer') is not None:
        if cs.get('layer_as_str'):
            d['layer'] = world.layers_module + '.' + cs['layer']
        else:
            d['layer'] = get_layer(world, cs['layer'])
    if cs.get('level') is not None:
        d['level'] = cs['level']
    fx = dict(cs.get('fixture') or {})
    fx.update((world.plan.get('units') or {}).get(cs['name']) or {})
    for hook, beh in sorted(fx.items()):
        d[hook] = _class_fixture(hook, beh)
    cls = type(cs['name'], (unittest.TestCase,), d)
    if cs.get('class_skip'):
        cls = unittest.skip('class skipped')(cls)
    return cls


def _class_fixture(hook, beh):
    """setUpClass / tearDownClass of a generated class.  They only run when
    the class is run through the stdlib suite machinery (UnitEntry): the
    runner itself calls every test case on its own."""
    def fn(cls):
        emit('class.' + hook, cls='%s.%s' % (cls.__module__, cls.__name__),
             beh=beh, out_is_orig=(sys.stdout is ORIG_STDOUT)
             if ORIG_STDOUT is not None else None,
             err_is_orig=(sys.stderr is ORIG_STDERR)
             if ORIG_STDERR is not None else None)
        if beh == 'skip':
            raise unittest.SkipTest('%s of %s skips' % (hook, cls.__name__))
        if beh.startswith('raise:'):
            raise make_exc(beh[6:], '%s of %s' % (hook, cls.__name__))
    fn.__name__ = hook
    return classmethod(fn)


class UnitEntry:
    """A test entry that is not a unittest.TestSuite (so the runner does not
    flatten it) and runs the tests of one class as a unit through the stdlib
    suite machinery - what a 'keep the class fixtures working' wrapper or a
    third-party suite type does.  Class level fixture outcomes reach the
    result as addSkip / addError for an _ErrorHolder *without* startTest /
    stopTest around them."""

    def __init__(self, cls):
        self._cls = cls

    def _load(self):
        # (a stdlib suite empties itself while it runs: a fresh one for
        # every --repeat iteration)
        return unittest.TestLoader().loadTestsFromTestCase(self._cls)

    def countTestCases(self):
        return self._load().countTestCases()

    def __call__(self, result):
        return self._load().run(result)

    run = __call__

    failureException = AssertionError

    def debug(self):
        # (what -D calls instead of __call__)
        return self._load().debug()

    def id(self):
        return '%s.%s' % (self._cls.__module__, self._cls.__name__)

    def shortDescription(self):
        return None

    def __str__(self):
        return 'unit (%s)' % self.id()

    def __repr__(self):
        return '<UnitEntry %s>' % self.id()


def _param_str(self):
    s = unittest.TestCase.__str__(self)
    p = self.__dict__.get('_v_param')
    return s if p is None else '%s [%s]' % (s, p)


def build_node(world, modname, node, ns):
    if node['t'] == 'class':
        cls = ns.get(node['name'])
        if cls is None:
            cls = build_class(world, modname, node)
            ns[node['name']] = cls
        loader = unittest.TestLoader()
        if node.get('params'):
            # the classic parametrised test case: one instance per
            # parameter for every method; the instances of one method
            # compare equal and share their id(), only str() tells them
            # apart
            cls.__str__ = _param_str
            suite = unittest.TestSuite()
            for name in loader.getTestCaseNames(cls):
                for p in node['params']:
                    t = cls(name)
                    t._v_param = p
                    suite.addTest(t)
            return suite
        suite = loader.loadTestsFromTestCase(cls)
        return suite
    if node['t'] == 'unit':
        cls = ns.get(node['name'])
        if cls is None:
            cls = build_class(world, modname, node)
            ns[node['name']] = cls
        entry = UnitEntry(cls)
        if node.get('layer') is not None:
            entry.layer = get_layer(world, node['layer'])
        if node.get('level') is not None:
            entry.level = node['level']
        return entry
    if node['t'] == 'doctest':
        # docstring examples of generated functions of this module
        import doctest
        import types
        m = types.ModuleType(modname)
        m.__file__ = sys.modules[modname].__file__
        for d in node.get('docs', []):
            exec('def %s():\n    pass\n' % d['name'], m.__dict__)
            m.__dict__[d['name']].__doc__ = d['doc']
        return doctest.DocTestSuite(m)
    if node['t'] == 'docfile':
        import doctest
        base = os.path.dirname(os.environ['ZTR_WORLD'])
        return doctest.DocFileSuite(
            *[os.path.join(base, f) for f in node['files']],
            module_relative=False)
    suite = unittest.TestSuite()
    if node.get('layer') is not None:
        if node.get('layer_as_str'):
            suite.layer = world.layers_module + '.' + node['layer']
        else:
            suite.layer = get_layer(world, node['layer'])
    if node.get('level') is not None:
        suite.level = node['level']
    for ch in node.get('ch', []):
        if node.get('flat') and ch['t'] == 'class':
            # a hand-built flat suite: the test instances of the class are
            # added one by one next to their siblings (no suite per class);
            # a test may carry a declaration of its own on the instance
            cls = ns.get(ch['name'])
            if cls is None:
                cls = build_class(world, modname, ch)
                ns[ch['name']] = cls
            for name in unittest.TestLoader().getTestCaseNames(cls):
                t = cls(name)
                ts = cls._v_tests[name]
                if ts.get('ilayer') is not None:
                    t.layer = get_layer(world, ts['ilayer'])
                if ts.get('ilevel') is not None:
                    t.level = ts['ilevel']
                suite.addTest(t)
        else:
            suite.addTest(build_node(world, modname, ch, ns))
    return suite


def build_module(modname, filename=None):
    """Called by every generated test module; returns names to define."""
    world = _load_world()
    emit('mod.import', mod=modname, file=filename)
    world.point('mod.import:' + modname)
    ms = None
    for m in world.spec.get('modules', []):
        if m['name'] == modname:
            ms = m
            break
    if ms is None:
        return {}
    fault = (world.plan.get('modules') or {}).get(modname, ms.get('fault'))
    if fault and fault.get('child_only') and not world.is_child:
        # importable where the run starts, not in a layer subprocess (a
        # module that depends on the working directory, on a resource only
        # one process can hold ...)
        fault = None
    if fault:
        what = fault.get('what', 'raise')
        if what == 'raise':
            raise make_exc(fault.get('exc', 'ImportError'),
                           fault.get('msg', 'cannot import ' + modname))
        if what == 'sysexit':
            raise SystemExit(fault.get('code', 2))
    ns = {}
    node = ms['suite']
    if ms.get('use_test_suite', True):
        state = {}

        def test_suite():
            emit('mod.test_suite', mod=modname)
            if fault_ts:
                raise make_exc(fault_ts.get('exc', 'ValueError'),
                               'test_suite of %s fails' % modname)
            if bad_suite:
                return 'not a suite'
            return build_node(world, modname, node, state.setdefault('ns', ns))
        fault_ts = ms.get('fault_test_suite')
        bad_suite = ms.get('bad_suite')
        # build classes now so they are module attributes
        _prebuild(world, modname, node, ns)
        ns['test_suite'] = test_suite
    else:
        _prebuild(world, modname, node, ns)
    return ns


def _prebuild(world, modname, node, ns):
    if node['t'] in ('class', 'unit'):
        if node['name'] not in ns:
            ns[node['name']] = build_class(world, modname, node)
    elif node['t'] == 'suite':
        for ch in node.get('ch', []):
            _prebuild(world, modname, ch, ns)


def decoy_imported(modname, filename=None):
    emit('mod.import', mod=modname, file=filename, decoy=True)


def file_imported(modname, filename=None):
    """Called at import time by every .py file of a discovery tree."""
    emit('file.import', mod=modname, file=filename)
