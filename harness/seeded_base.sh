#!/bin/sh
# usage: seeded_base.sh <worktree of an earlier /verif commit> <seed-dir> <prop>
# Runs the quick check of <prop> AS IT WAS at that commit against the seeded
# change; writes <seed-dir>/detection_as_was.json.
base="$1"; seed="$(cd "$2" && pwd)"; c="$3"
scratch="$(mktemp -d /tmp/ztr-seedb-XXXXXX)"
trap 'rm -rf "$scratch"' EXIT
cp -r /repo/src "$scratch/src"
find "$scratch/src" -name __pycache__ -type d -exec rm -rf {} + 2>/dev/null
(cd "$scratch" && patch -s -p1 < "$seed/patch.diff") || { echo "patch does not apply"; exit 3; }
start=$(date +%s)
log=$(cd "$base" && ZTR_VERIF_SRC="$scratch/src" ./check $c --tier quick --no-evidence 2>&1); st=$?
end=$(date +%s)
rule=$(echo "$log" | grep -m1 "rule=" | sed 's/^ *//' | cut -c1-160 | tr '"' "'" | tr -d '\\')
printf '{ "%s": {"verif_commit": "%s", "exit": %d, "seconds": %d, "first": "%s"} }\n' "$c" "$(git -C "$base" log --format=%h -1)" "$st" "$((end-start))" "$rule" > "$seed/detection_as_was.json"
echo "$c as-was exit=$st $((end-start))s $rule"
