NOT_APPLICABLE = {}

reg('C20', 'exploration', 'runtime contract on DiGraph.sccs vs reachability oracle; bounded-exhaustive graph enumeration + real gc garbage',
    'Every digraph with self-loops on <=3 (quick) / <=4 (thorough) nodes x every insertion order x plain nodes / identity-keyed nodes (ordinary objects, objects that are all equal and hash alike, unhashable equal lists, objects whose == and hash() raise) is pushed through the real DiGraph API and each sccs() result is compared with an independent reachability-closure oracle (both modes); random graphs to 40 nodes; chains, rings, rings with tails, chains of rings and ladders of 1 500 - 6 000 nodes (components known by construction); real cyclic garbage through TestResult.stopTest with the same contract decorated onto the method. Exhaustive within the stated bound, sampled beyond.',
    'Trusts the O(n^3) reachability oracle and CPython set/dict semantics; graphs beyond 4 nodes are sampled only.',
    'DESIGN.md 2/C20')
reg('C08', 'exploration', 'runtime contract on build_filtering_func (both binding sites) vs algebraic spec; exhaustive small-scope enumeration; metamorphic monitors; end-to-end runs',
    'All pattern lists of length <=3 over a 14-pattern alphabet x all non-empty names over {a,b,.} up to length 4, and over a second 14-pattern alphabet of regex features that couple patterns unless each is compiled on its own (inline flags, back-references, named groups, verbose mode, dangling alternation, look-ahead) x names over {a,b,A,B} up to length 3, are evaluated on the real predicate and compared with the union-of-positives-minus-negatives spec, plus order/duplication/monotonicity monitors; generated worlds (a third with a directory knit into a package through --package-path, a third using the legacy positional filters) are run with -t/-m/--layer and the executed tests, imported modules and run layers must equal what the spec accepts (contract active inside the run).',
    'Trusts re.search; candidate names are non-empty (real ids are).',
    'DESIGN.md 2/C08')
reg('C01', 'fault_enumeration', 'offline state-machine oracle over the cross-process event trace of real runs (facts from layer/test hooks + formatter claims); fault injection in layer hooks',
    'Random layer DAGs (class/instance layers, multiple inheritance, hooks independently absent) with tests per layer (15 % of the worlds use the family "three bases, two with a common base, one unrelated root") are run through the real runner under enumerated fault plans (setUp raises / tearDown raises / tearDown NotImplementedError at every single placement, sampled pairs, correlated faults on a derived layer and one of its bases) and option vectors (--layer, -x, --repeat, --shuffle, -j N); every process\'s recorded setUp/tearDown/test events are replayed through a set-of-layers state machine that asserts bases-before, derived-torn-down-before, exact closure at every test event, nothing after a NotImplementedError tear-down, empty at exit, resumed children one at a time.',
    'Trusts the world hooks as truthful facts, O_APPEND atomicity and CLOCK_MONOTONIC across processes; graphs beyond 6 layers not generated.',
    'DESIGN.md 2/C01')
reg('C04', 'fault_enumeration', 'fault injection (exception class x phase x position x options) into real runs; trace + output oracles',
    'One or two faulty tests (12 fault kinds incl. two-event kinds, sub-tests, unexpected success, SystemExit) or layer hooks with 20+ exception classes (also unhashable ones, ones equal to everything, falsy ones) and hostile messages (lone surrogates as produced by os.fsdecode, NUL, escape and control characters, astral planes) are placed at first/middle/last positions of 1-3 layer worlds and run with --buffer on/off, -v0..3, the plain / colourised / progress formatters, in-process, as a real CLI process (real pipes and encodings; half of them under CPython 3.9/3.10/3.11/3.13) and in children; oracle: run_internal returns (CLI: no traceback of the runner itself), every other runnable test started, layer machine ends empty, a summary line per layer iteration and a totals line exist, every faulty test that ran is named in the final failure/error lists.',
    'Exception classes are a fixed list of about two dozen (plus a hostile-__str__ class in thorough); BaseException classes other than SystemExit raised by tests are outside the statement; a MemoryError out of a layer hook aborts the run on purpose - recorded known finding.',
    'DESIGN.md 2/C04')
reg('C05', 'exploration', 'online pushdown/episode checker over testSetUp/testTearDown/test facts of real runs; exhaustive outcome sequences up to length 3',
    'All 3615 sequences over 15 outcome kinds (incl. skipTest inside a subTest block) up to length 3 (thorough: + 6000 sampled length 4-5) inside random layer stacks whose layers carry both/one/none of the per-test hooks, x --repeat, -x, --buffer, a sample on every installed CPython 3.9-3.13; each episode SU* T* TD* is judged for exact hook set, bases-first, exact mirror, balance around tests that never start, silence outside the stack.',
    'Exhaustive only for sequence length <=3 within one class layer stack <=4 layers; other interpreters are sampled.',
    'DESIGN.md 2/C05')
reg('C09', 'exploration', 'real runs + --list-tests of generated nested-suite worlds compared with a nearest-declaration reference model; layer attribution by the layer state machine over trace facts',
    'Worlds whose test_suite() nests suites to depth <=3 (a third of the suites hand-built flat ones whose test instances may declare for themselves), every suite and TestCase class independently declaring layer (none / one of <=3 / unit) and level (none, -1..3), are run for real and listed under option vectors over --at-level {-1,0,1,2,3,10}, --all, --only-level {-1,0,1,2,5}, the four -u/-f combinations and --layer patterns; executed ids, the layer state each ran under, the Running-headers and the listing must equal the model.',
    'Reference model (vworld.iter_tests/expected_tests) is trusted; declarations are sampled randomly, not enumerated; depth <=3.',
    'DESIGN.md 2/C09')
reg('C03', 'exploration', 'cross-mode differential monitoring: per-pid test facts of sequential, --list-tests, -j N and resumed-child executions of one world/option vector vs reference selection model',
    'Generated multi-module worlds with nested suites, levels, 1-4 layers (NotImplementedError tear-downs force resumed children) are run under option vectors over -t/-m/--layer pattern lists, overlapping -s packages, level switches, -u/-f, --repeat, --shuffle-seed in three modes (plus, sampled, a real CLI process whose tests rewrite sys.argv in place before layers go to subprocesses); suites are also hand-built flat ones with declarations on the test instance; the executed multiset must equal model x repeat with each test in exactly one pid under its own layer, the listing must equal the model per layer and match the sequential execution order, a list run (a third of them asked for together with -j N) must produce no test/layer fact, and -j N must execute the same multiset with the same verdict.',
    'Reference model trusted; decorator-skipped tests leave no fact and are compared through the listing only; N and patterns sampled.',
    'DESIGN.md 2/C03')
reg('C10', 'exploration', 'runtime contract + direct oracle on the real order_by_bases over bounded-exhaustive layer DAGs; differential CLI runs across PYTHONHASHSEED / definition-order variants',
    'Every labelled DAG on <=3 (quick; + a 48-DAG sample of n=4) / <=4 (thorough, all 543) nodes as instance layers and as class layers where a C3 MRO exists, x all relative namings (incl. one bare name shared by layers of different modules) x optional real UnitTests node x every requested subset x every input permutation: result must be a duplicate-free permutation, unit first, requested bases before derived, identical for all permutations. The 5-node family "three bases, two with a common base, one unrelated root" is enumerated over all base orders and namings. Real CLI runs of one world under permuted module assignment, layer definition order, file creation order and 9 hash seeds (run, --list-tests, -j N, resumed children) must print identical header sequences, each header once.',
    'Layers have distinct qualified names (bare names are also shared across modules); class DAGs limited to those Python can express; >4 nodes sampled.',
    'DESIGN.md 2/C10')
reg('C02', 'fault_enumeration', 'fault injection (bad test kinds, failing layer hooks, import failures, child crash / spawn failure / cut report, stdout+stderr noise) with verdict oracle against trace facts, across in-process / resumed / -j N / CLI modes',
    'All-good skeleton worlds get the good plan (negative control), every single placement of one bad item (sampled per case), pairs and correlated layer faults along a base edge, each executed in-process and in one or two of {resumed children, -j1, -j2, -j(k+1)}, plus CLI exit status, child crashes at test/layer/report points x {exit0, exit3, SIGKILL, SIGSEGV}, EAGAIN/ENOMEM on the n-th Popen or persistently for one layer, and reports cut at a byte offset; 40% of the bad test placements under --repeat 2-3 use tests that go wrong in some iterations only (first only, all but the first ...); 40% of runs are repeated under a noise overlay (header look-alikes, lines that only begin like a header, summary look-alikes, complete non-UTF-8 lines, 200 kB bursts on sys.stdout/sys.stderr/sys.__stderr__/fd1/fd2). The verdict must equal "bad facts non-empty" in every mode, agree across modes and not change under noise.',
    'Bad facts come from the trace and unittest-calibrated kinds; per case only a sample of placements/modes is run in the quick tier; the header-look-alike noise mechanism and the partial-line-glued-to-the-header mechanism are recorded known findings.',
    'DESIGN.md 2/C02')
reg('C11', 'exploration', 'differential monitoring of per-layer execution order (trace facts) across runs/modes/interpreters for one seed; runtime contract on Shuffle.global_setup',
    'For seeds {0,1,42,2**31,2**63+5,-7,random,clock} and worlds of 0-4 layers x 0-12 tests, the per-layer order of test.setUp facts is compared between two sequential runs, --list-tests (also combined with -j N and with --layer), -j N children, resumed children, a --layer subset run, a CLI run under CPython 3.9/3.10/3.11/3.13, a run during which another thread uses the module-level random functions (GIL handed over inside the shuffle by a LINE callback) and a re-run with the clock-derived seed the runner reported; per-layer multisets must equal the unshuffled discovery multisets and the seed line must show the requested seed.',
    'No shuffling algorithm is modelled; interpreters limited to the five installed CPythons.',
    'DESIGN.md 2/C11')
reg('C12', 'exploration', 'output parser vs ground truth from trace facts + unittest-calibrated event counts; cross-mode comparison',
    'Worlds with random outcome kinds (two-event kinds, k failing sub-tests, unexpected successes, 3 skip flavours), failing layer hooks and import-failing modules are run at -v0..3, --repeat 1-3 (half of them with outcomes that differ between the iterations), sequentially and (sampled) with resumed children and -j N whose tests chatter on the real stderr (complete non-header lines, some written at interpreter shutdown after the report); every "Ran" line (matched to its own iteration), the Total line and the two name lists (as multisets) must equal what the facts say happened; totals must agree between sequential and -j N when the same layer hooks failed.',
    'Leniencies of DESIGN.md 2/C12 (import failures inside per-layer errors, per-iteration vs all-iteration totals, decorator-skipped test counted or not, a setUp failure listed under the raising layer or the layer being set up).',
    'DESIGN.md 2/C12')
reg('C13', 'exploration', 'ordered recorder of every write to the real stream objects + identity probes inside hooks; exhaustive outcome sequences up to length 3',
    'All 2954 sequences over 14 outcome kinds up to length 3 (thorough: + sampled length 4-6), every test writing unique tokens in random phases to stdout/stderr (newline / no newline / bytes through .buffer, also bytes that no codec accepts), with --buffer on/off and -v0..3 (some passing tests leave their own StringIO installed): hidden-outcome tokens must be absent, failing-test tokens present exactly once after the test\'s own header and before the next test, sys.stdout/sys.stderr must be the original objects in every layer per-test hook and after the run, and be replaced inside tests only with --buffer.',
    'subunit-forced buffering not covered (package absent); position oracle only for in-process runs.',
    'DESIGN.md 2/C13')
reg('C14', 'exploration', 'import facts emitted by every .py file of generated trees vs independent discovery model; enumeration-order fault injection through an os.walk proxy',
    'Random trees (identifier / non-identifier / ignored directory names, symbolically linked sub-directories of all three name classes, packages with and without __init__.py, look-alike files) under option vectors over tests/test-file patterns, duplicated and nested --path/--test-path in both orders (also an outer --test-path around an inner --path), --ignore_dir, -m lists and --package: imported candidate files must equal the model, each once, no decoy imported, order = top-down sorted walk, and identical when every directory listing the finder sees is scrambled.',
    'Model trusted; a directory never holds both X.py and package X; overlapping roots that give two files one module name are avoided; with nested roots a file accepted under any of its dotted names may be loaded.',
    'DESIGN.md 2/C14')
reg('C15', 'exploration', 'file-system snapshot diff + sys.addaudithook records (+ strace -f sample) vs independent orphan model',
    'Random trees mixing .py/.pyc/.pyo, look-alikes, side files sorting between source and bytecode (x.py.orig), __pycache__, ignored / non-identifier directories, symlinked directories (also links named __pycache__ / CVS / .git pointing at a store of source-less bytecode), a directory named x.py, read-only files, under every combination of -k/--keepbytecode/--usecompiled, --path/--test-path (nested, duplicated), --ignore_dir: must_delete <= deleted <= may_delete, nothing else missing / modified / created, no file operation other than unlink of a may-delete path recorded by the audit hook (and by strace on a sample).',
    'Leniency for bare ".pyc" names and orphans behind a symbolic link; symlink loops not generated.',
    'DESIGN.md 2/C15')
reg('C16', 'fault_enumeration', 'per-process trace oracle after the first bad fact; fault placement enumeration x -x/--repeat/--shuffle/modes',
    'One or two bad items (11 test kinds or a layer setUp failure) at random positions of 1-3 layer worlds with -x, --repeat 1-3 (also tests that go wrong in a later iteration only), --shuffle-seed, in-process / -j2 / resumed children: after the first bad test\'s own events no test.setUp fact follows in that process, in a sequential run no layer.setUp.enter follows, the layer machine ends empty, the faulty layer has its summary line and the verdict is failed.',
    'A layer tearDown failure between layers is not treated as a stop trigger (not in the statement).',
    'DESIGN.md 2/C16')
reg('C17', 'exploration', 'expat parse of every report file + element/attribute consistency + per-test comparison with unittest-calibrated events; hostile Unicode generator',
    'Worlds with every outcome kind, doctest functions, a DocFileSuite file and an import-failing module, messages from a Unicode generator (C0/C1, NUL, lone surrogates, U+FFFE/FFFF, markup, CDATA look-alikes, 100 kB, astral) and markup / non-ASCII method names, --repeat, --buffer, and (a fifth) with 2-3 layers run by subprocesses (-j N or resumed one after the other) that write the files: every file parses with ElementTree and minidom, @tests/@errors/@failures equal the element counts, each passing test has exactly one plain testcase per iteration under its own class, each failure/error event one testcase with the right child.',
    'Control characters/surrogates generated in messages only; skipped tests unconstrained; doctest cases checked for well-formedness and counts only.',
    'DESIGN.md 2/C17')
reg('C18', 'exploration', 'before/after snapshot of interpreter-global state around run_internal in one process + in-test effect probes; exhaustive option subsets x endings',
    'All 2^7 subsets of {--gc, -G, --coverage, --profile, --buffer, warnings=, -D} x 13 endings (normal, failing, layer testSetUp / testTearDown hook raising - also around skipped, interrupted and multi-event tests -, KeyboardInterrupt in body/setUp/tearDown, -x); every run changes warnings.filters from inside a test and a third of the runs without warnings= behave as started with -W (sys.warnoptions): gc thresholds/debug, traceback functions, trace/profile hooks (sys and threading), sys.settrace identity, sys.monitoring tools, warnings filters/showwarning and sys.stdout/stderr must be identical before and after; an in-test probe shows every option was effective.',
    'Only the state named in the property is compared; -D driven by scripted stdin.',
    'DESIGN.md 2/C18')
reg('C19', 'exploration', 'world-side thread ledger (start / alive-at-end / release facts) vs parsed "left new threads behind" reports; exhaustive 2-test histories',
    'All 900 histories of two tests with <=1 thread each over (threading | _thread | _thread whose body uses the threading module at once or only during a later test) x (default / own / ignored name) x release point, ident-reuse schedules, and random histories of 2-6 tests x 0-3 threads (also threading.Timer, daemon and non-daemon) released in the same test, at start/middle/end of a later test or never, with --ignore-new-thread pattern lists (also matching mid-name, also with inline flags / back-references / named groups): per test the reported set must equal started-here & alive-at-end & not ignored.',
    'A released thread is waited for until it left sys._current_frames(); reports are mapped to ledger entries by ident among threads alive at that moment; ident reuse involving _thread-started threads is a recorded known finding.',
    'DESIGN.md 2/C19')
reg('C07', 'fault_enumeration', 'crash-point and byte-offset fault enumeration on real children + scripted fake child behind the real parent (script_parts) + spawn-failure injection; parent-side record vs what the child sent',
    'Real -j children are crashed at sampled crash points (import, layer hooks, test phases, report) x {exit0, exit3, SIGKILL, SIGSEGV}; the real report of a child is cut at every byte offset for reports with 0/1/3 names (50 names: sampled in quick, every offset in thorough); a scripted fake child feeds the real parent well-formed reports (emulator validated against bytes of real children on every run; up to 5000 names, Unicode, 10 kB names), leading noise (also lines that only begin like a header), trailing noise after the report, a report cut inside a multi-byte character, a report in latin-1, a partial line glued to the report, padded/CRLF headers, header look-alikes, missing/short/unterminated reports, >=1 MiB on either pipe in 7 write/close orders, abnormal exits; spawn failures by EAGAIN/ENOMEM (once, or persistently for one layer), missing / non-executable interpreter and vanished cwd; real children with line-break characters in failing test names. The parent must terminate, record exactly what a complete report said, and record an error + failed verdict otherwise.',
    'A cut that loses only the final newline is treated as complete; watchdog firing is inconclusive unless reproduced 3/3; header look-alike noise and a partial line glued to the header are recorded known findings.',
    'DESIGN.md 2/C07')
reg('C06', 'exploration', 'schedule control by file barriers inside real children (finish permutation, hold point) + parent-side Popen proxy (alive counter, reap markers) + sys.monitoring LINE yield injection in the parent threads; output-block and history oracles against the sequential run',
    'For k = 2..3 (quick, + sampled 4) / 2..4 (+ sampled 5, thorough) layers and N = 1..k+1, every finish permutation feasible for N is forced (a child holds in a test body, in its layer tearDown, before its report, or between closing its stdout and the first byte of the report, until the parent has completely finished the layer that must precede it), at verbosity levels selecting the Deferred / Keepalive / Immediate collectors, with seeded yield injection in spawn_layer_in_subprocess / resume_tests / collector writes; a third of the children write to their real stderr at interpreter shutdown (after the report), a quarter before it; in half of the runs the stdout of the parent is slow (every third flush blocks 3-20 ms). Executed multiset, verdict, totals and name multisets must equal the sequential run; stdout must split into one block per layer in sequential order holding exactly that layer\'s tokens; the alive counter and the children\'s lifetime intervals never exceed N; the first min(N,k) children must all reach their first test before any proceeds.',
    'Progress is checked as bounded progress (barrier timeout 25 s); a requested order that is not realised makes the case inconclusive; k >= 5 sampled only.',
    'DESIGN.md 2/C06')


# ---- fourth session: what was added to the workloads (appended to the texts)
def _more(pid, sentence, note=None):
    cat, tech, text, n, ref = CHECKS[pid]
    CHECKS[pid] = (cat, tech, text + ' ' + sentence,
                   n + (' ' + note if note else ''), ref)


_ALL = ('A quarter of all world runs also carry one to three options that '
        'must not matter (--exit-with-status, -1, --slow-test, --udiff, '
        '--ignore_dir, --suite-name, --keepbytecode, --auto-color, '
        '--no-progress, --require-unique ...); 10 % of the generated layers '
        'only group other layers (none of the four hooks).')
for _p in ('C01', 'C02', 'C03', 'C04', 'C05', 'C09', 'C11', 'C12', 'C13',
           'C16'):
    _more(_p, _ALL)
_more('C02', 'A test module that can be imported where the run starts but '
      'not in the layer subprocesses: when it is the only module of its '
      'layer the verdict must be failed (checked strictly); when the layer '
      'is still found the tests are dropped silently (recorded known '
      'finding).')
_more('C04', 'Every layer whose hook raised must be named in the final error '
      'list; a raising tear-down and a NotImplementedError tear-down in one '
      'tear-down pass.')
_more('C06', 'Tests of every outcome kind, also ones that produce more result '
      'events than there are tests (several failing sub-tests, body + '
      'tearDown errors); 15 % of the worlds contain a test module nobody '
      'can import.')
_more('C07', 'Real children with a worker thread that keeps logging to '
      'sys.stderr (10 us switch interval) from the layer tear-down on, i.e. '
      'while the subprocess writes its report.')
_more('C10', 'A layer subprocess that dies in the middle of a test (-j N and '
      'resumed runs): headers once, one subprocess per layer (spawn events '
      'of the Popen proxy).')
_more('C12', 'A layer subprocess that dies in the middle of a test (any of '
      'the layers; exit / SIGKILL / SIGSEGV) must be counted and listed as '
      'one error, once, and the other layers must still add up.')
_more('C14', 'A directory knit into a package with --package-path (named, '
      'filtered with -m and loaded as PACKAGE.<name>); test modules that '
      'cannot be imported (found, loaded once - also under nested search '
      'paths).')
_more('C15', 'Bytecode beside a source whose name differs in letter case / '
      'Unicode normalisation / a blank only is an orphan; ordering rule: no '
      'deletion (audit hook) after the first module of the tree has been '
      'loaded by discovery.')
_more('C17', 'A quarter of the in-process worlds spread the tests of one '
      'class over several layers that run one after the other in one '
      'process.')
_more('C18', 'Two more endings (a class run as a unit whose class fixture '
      'raises or skips as the last / first thing of the layer); a quarter of '
      'the runs start with application-installed traceback functions.')
_more('C19', 'Threads that share one name (worker pools); the world forgets '
      'ended threads, so their objects are really freed (counted in the '
      'evidence).')

# ---- added with round 10 (fifth session)
for _p in ('C01', 'C02', 'C03', 'C04', 'C05', 'C06', 'C09', 'C11', 'C12',
           'C13', 'C16', 'C17', 'C19'):
    _more(_p, '15 % of the world runs put the options on the command line '
          'in a shuffled order and some of them into the defaults of the '
          'script (layer subprocesses receive those as --default words).')
for _p in ('C01', 'C03', 'C04', 'C05', 'C10', 'C11'):
    _more(_p, '30 % of the generated layers that have setUp, tearDown and a '
          'per-test hook get the per-test hooks only when they are set up '
          'and lose them when they are torn down.')
_more('C03', 'A fifth of the worlds contain one more test module that cannot '
      'be loaded (raises at import, or leaves through sys.exit()).')
_more('C04', 'Outcome kind cleanup_builtin_error (a failing C-level clean-up '
      'registered directly: a traceback without a frame of test code); '
      'MemoryError out of a layer hook is a recorded known finding (the '
      'runner re-raises it on purpose).')
_more('C06', 'Three worlds in ten are shuffled with a fixed seed and contain '
      'tests whose outcome depends on the order inside the layer.')
_more('C07', 'Three fake-child runs in ten give the parent std streams with '
      'a narrow strict encoding: printing the banner that quotes the '
      "child's non-ASCII stderr raises in the layer's worker thread; the "
      'error must be on record all the same.')
_more('C08', 'End-to-end patterns with commas, "=", blanks and ";" inside '
      'regex syntax ({1,2} quantifiers, [a,;] classes).')
_more('C10', 'In 40 % of the real-run variants the same set of layers is '
      'asked for by name with one exact --layer option per layer, in '
      'arbitrary order.')
_more('C11', 'A quarter of the worlds have parametrised test cases (2-3 '
      'equal instances per method sharing an id).')
_more('C12', 'Names and sub-test messages with characters that '
      'str.splitlines() takes for line boundaries (VT, FF, FS/GS/RS, NEL, '
      'U+2028, U+2029); white space in listed names is compared squashed.')
_more('C13', '300 / 3000 runs are cut short by a KeyboardInterrupt inside a '
      'test, half of them under the post-mortem debugger (-D): the streams '
      'after the run.')
_more('C14', 'Directories named after reserved words (lambda, global, if, '
      'async), a soft keyword and with letters beyond ASCII.')
_more('C15', '40 / 600 worlds in which source-less bytecode appears while '
      'the run is under way: a layer subprocess started afterwards (-j 2 '
      'behind a barrier, resumed children) must remove it before its own '
      'discovery, and only it; -k / --usecompiled keep everything. The '
      'strace cross-check decodes C escapes in paths.')
_more('C16', 'A test that goes wrong inside a class run as a unit (3-5 tests '
      'in a stdlib suite, not the last): the tests behind it must not '
      'start.')
_more('C17', 'Three tests in ten print hostile text (control characters, '
      'markup) to stdout / stderr; --buffer on a third of the runs.')
_more('C18', 'Three runs in ten start with application trace / profile '
      'functions installed (sys and threading), three in ten have a test '
      'that uses these hooks itself (install, call, remove with '
      'set...(None) or by putting back what it found), a fifth have a test '
      'that runs the test runner itself with state-changing options - the '
      'inner run must put back the outer run\'s state.')
_more('C19', 'A quarter of the random histories have a test that runs the '
      'test runner itself (in-process, output captured) after starting its '
      'threads.')

# ---- added with round 11 (fifth session)
_more('C01', 'A tenth of the worlds have two different base layer objects '
      'that carry one name (twin instance layers) under two differently '
      'named test layers; 18 % of the cases add options of other features '
      'that wrap the run (--coverage, --gc / -G, --profile); a '
      'NotImplementedError out of a layer setUp is one of the faults. The '
      'quick tier draws 100 worlds, the two multiple-inheritance families '
      'in 40 % of them.')
_more('C02', 'NotImplementedError out of a layer setUp is an error like any '
      'other (only out of tearDown it means "cannot be torn down").')
_more('C04', 'Faulty tests that go wrong in the first --repeat iteration '
      'only; NotImplementedError out of a layer setUp.')
_more('C05', '6 % of the tests run the test runner themselves (in-process, '
      'a tree without layers): the per-test hooks of the outer stack must '
      'not be touched by the inner run.')
_more('C06', '10 / 120 runs with a layer whose subprocess cannot be started '
      '(not the last one): the blocks of the other layers are printed all '
      'the same, complete and in order.')
_more('C07', 'Half of the big-volume cases add one transient read error '
      'while the parent drains the child.')
_more('C08', 'End-to-end runs use exotic layer names (names that differ only '
      'where one has a dot) in four graphs out of ten and put the layers '
      'into subprocesses in a quarter of the runs.')
_more('C09', 'A sixth of the real runs hand the layers to subprocesses (-j '
      'N, resumed).')
_more('C10', 'A layer that can neither be set up nor be torn down; a layer '
      'handed to a subprocess must not have been begun by the process that '
      'hands it over.')
_more('C11', 'The seed in the defaults of the script and --shuffle on the '
      'command line (and the other way round).')
_more('C13', 'Buffered tests that run a buffered inner run of the test '
      'runner after what they wrote.')
_more('C18', 'A 17th ending: runs that only list the tests.')
_more('C19', 'Thread objects that are false (a worker that is also a '
      'container).')
_more('C20', 'add_nodes() calls that name nodes which are known already.')
_more('C03', 'Not covered yet: layers declared as dotted-name strings that go '
      'through a re-exporting module (a seeded change of round 11 that '
      'breaks C03 only there is still missed).')
