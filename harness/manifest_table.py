NOT_APPLICABLE = {}

reg('C20', 'exploration', 'runtime contract on DiGraph.sccs vs reachability oracle; bounded-exhaustive graph enumeration + real gc garbage',
    'Every digraph with self-loops on <=3 (quick) / <=4 (thorough) nodes x every insertion order x id-keyed/plain nodes is pushed through the real DiGraph API and each sccs() result is compared with an independent reachability-closure oracle (both modes); random graphs to 40 nodes; real cyclic garbage through TestResult.stopTest with the same contract decorated onto the method. Exhaustive within the stated bound, sampled beyond.',
    'Trusts the O(n^3) reachability oracle and CPython set/dict semantics; graphs beyond 4 nodes are sampled only.',
    'DESIGN.md 2/C20')
reg('C08', 'exploration', 'runtime contract on build_filtering_func (both binding sites) vs algebraic spec; exhaustive small-scope enumeration; metamorphic monitors; end-to-end runs',
    'All pattern lists of length <=3 over a 14-pattern alphabet x all non-empty names over {a,b,.} up to length 4 are evaluated on the real predicate and compared with the union-of-positives-minus-negatives spec, plus order/duplication/monotonicity monitors; generated worlds are run with -t/-m/--layer and the executed tests, imported modules and run layers must equal what the spec accepts (contract active inside the run).',
    'Trusts re.search; candidate names are non-empty (real ids are).',
    'DESIGN.md 2/C08')
reg('C01', 'fault_enumeration', 'offline state-machine oracle over the cross-process event trace of real runs (facts from layer/test hooks + formatter claims); fault injection in layer hooks',
    'Random layer DAGs (class/instance layers, multiple inheritance, hooks independently absent) with tests per layer are run through the real runner under enumerated fault plans (setUp raises / tearDown raises / tearDown NotImplementedError at every single placement, sampled pairs) and option vectors (--layer, -x, --repeat, --shuffle, -j N); every process\'s recorded setUp/tearDown/test events are replayed through a set-of-layers state machine that asserts bases-before, derived-torn-down-before, exact closure at every test event, nothing after a NotImplementedError tear-down, empty at exit, resumed children one at a time.',
    'Trusts the world hooks as truthful facts, O_APPEND atomicity and CLOCK_MONOTONIC across processes; graphs beyond 6 layers not generated.',
    'DESIGN.md 2/C01')
reg('C04', 'fault_enumeration', 'fault injection (exception class x phase x position x options) into real runs; trace + output oracles',
    'One or two faulty tests (12 fault kinds incl. two-event kinds, sub-tests, unexpected success, SystemExit) or layer hooks with 13+ exception classes and hostile messages are placed at first/middle/last positions of 1-3 layer worlds and run with --buffer on/off, -v0..3, in-process and in children; oracle: run_internal returns, every other runnable test started, layer machine ends empty, a summary line per layer iteration and a totals line exist.',
    'Exception classes are a fixed list of 14 (plus a hostile-__str__ class in thorough); MemoryError / BaseException other than SystemExit are outside the statement.',
    'DESIGN.md 2/C04')
reg('C05', 'exploration', 'online pushdown/episode checker over testSetUp/testTearDown/test facts of real runs; exhaustive outcome sequences up to length 3',
    'All 2954 sequences over 14 outcome kinds up to length 3 (thorough: + 6000 sampled length 4-5) inside random layer stacks whose layers carry both/one/none of the per-test hooks, x --repeat, -x, --buffer, a sample on every installed CPython 3.9-3.13; each episode SU* T* TD* is judged for exact hook set, bases-first, exact mirror, balance around tests that never start, silence outside the stack.',
    'Exhaustive only for sequence length <=3 within one class layer stack <=4 layers; other interpreters are sampled.',
    'DESIGN.md 2/C05')
reg('C09', 'exploration', 'real runs + --list-tests of generated nested-suite worlds compared with a nearest-declaration reference model; layer attribution by the layer state machine over trace facts',
    'Worlds whose test_suite() nests suites to depth <=3, every suite and TestCase class independently declaring layer (none / one of <=3 / unit) and level (none, -1..3), are run for real and listed under option vectors over --at-level {-1,0,1,2,3,10}, --all, --only-level {-1,0,1,2,5}, the four -u/-f combinations and --layer patterns; executed ids, the layer state each ran under, the Running-headers and the listing must equal the model.',
    'Reference model (vworld.iter_tests/expected_tests) is trusted; declarations are sampled randomly, not enumerated; depth <=3.',
    'DESIGN.md 2/C09')
reg('C03', 'exploration', 'cross-mode differential monitoring: per-pid test facts of sequential, --list-tests, -j N and resumed-child executions of one world/option vector vs reference selection model',
    'Generated multi-module worlds with nested suites, levels, 1-4 layers (NotImplementedError tear-downs force resumed children) are run under option vectors over -t/-m/--layer pattern lists, level switches, -u/-f, --repeat, --shuffle-seed in three modes; the executed multiset must equal model x repeat with each test in exactly one pid under its own layer, the listing must equal the model per layer and match the sequential execution order, a list run must produce no test/layer fact, and -j N must execute the same multiset with the same verdict.',
    'Reference model trusted; decorator-skipped tests leave no fact and are compared through the listing only; N and patterns sampled.',
    'DESIGN.md 2/C03')
reg('C10', 'exploration', 'runtime contract + direct oracle on the real order_by_bases over bounded-exhaustive layer DAGs; differential CLI runs across PYTHONHASHSEED / definition-order variants',
    'Every labelled DAG on <=3 (quick; + a 48-DAG sample of n=4) / <=4 (thorough, all 543) nodes as instance layers and as class layers where a C3 MRO exists, x all relative namings x optional real UnitTests node x every requested subset x every input permutation: result must be a duplicate-free permutation, unit first, requested bases before derived, identical for all permutations. Real CLI runs of one world under permuted module assignment, layer definition order, file creation order and 9 hash seeds (run, --list-tests, -j N) must print identical header sequences, each header once.',
    'Layers have distinct qualified names; class DAGs limited to those Python can express; >4 nodes sampled.',
    'DESIGN.md 2/C10')
