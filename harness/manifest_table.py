NOT_APPLICABLE = {}

reg('C20', 'exploration', 'runtime contract on DiGraph.sccs vs reachability oracle; bounded-exhaustive graph enumeration + real gc garbage',
    'Every digraph with self-loops on <=3 (quick) / <=4 (thorough) nodes x every insertion order x id-keyed/plain nodes is pushed through the real DiGraph API and each sccs() result is compared with an independent reachability-closure oracle (both modes); random graphs to 40 nodes; real cyclic garbage through TestResult.stopTest with the same contract decorated onto the method. Exhaustive within the stated bound, sampled beyond.',
    'Trusts the O(n^3) reachability oracle and CPython set/dict semantics; graphs beyond 4 nodes are sampled only.',
    'DESIGN.md 2/C20')
reg('C08', 'exploration', 'runtime contract on build_filtering_func (both binding sites) vs algebraic spec; exhaustive small-scope enumeration; metamorphic monitors; end-to-end runs',
    'All pattern lists of length <=3 over a 14-pattern alphabet x all non-empty names over {a,b,.} up to length 4 are evaluated on the real predicate and compared with the union-of-positives-minus-negatives spec, plus order/duplication/monotonicity monitors; generated worlds are run with -t/-m/--layer and the executed tests, imported modules and run layers must equal what the spec accepts (contract active inside the run).',
    'Trusts re.search; candidate names are non-empty (real ids are).',
    'DESIGN.md 2/C08')
