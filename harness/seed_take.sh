#!/bin/sh
# usage: seed_take.sh <prop> <name> <worktree>   (intake + quick check of the matching property; removes the worktree)
prop="$1"; name="$2"; wt="$3"
here="$(cd "$(dirname "$0")/.." && pwd)"
/venv/bin/python "$here/harness/seed_intake.py" "$prop" "$name" "$wt/_seed" > "/tmp/intake-$name.log" 2>&1
st=$?
tail -1 "/tmp/intake-$name.log"
if [ $st -eq 0 ]; then
  sh "$here/harness/seeded_eval.sh" "$here/seeded/$name" "$prop" >> "/tmp/intake-$name.log" 2>&1
  tail -1 "/tmp/intake-$name.log" | cut -c1-300
fi
git -C /repo worktree remove --force "$wt" 2>/dev/null
exit $st
