#!/usr/bin/env python3
"""Run every own mutant (mutants/cNN_*.sh|.patch) against the quick tier of
its check, on a scratch copy of /repo/src (never /repo), and record in
mutants/RESULTS.json whether the mutation really changed the source and
whether the check fired.

usage: mutants_eval.py [name-substring ...]
"""
import json
import os
import re
import shutil
import subprocess
import sys
import tempfile
import time

VERIF = os.path.dirname(os.path.dirname(os.path.abspath(__file__)))


def main():
    want = sys.argv[1:]
    out_path = os.path.join(VERIF, 'mutants', 'RESULTS.json')
    res = {}
    if os.path.exists(out_path):
        res = json.load(open(out_path))
    names = sorted(f for f in os.listdir(os.path.join(VERIF, 'mutants'))
                   if re.match(r'c\d\d_.*\.(sh|patch)$', f))
    for name in names:
        if want and not any(w in name for w in want):
            continue
        check = name[:3].upper()
        mut = os.path.join(VERIF, 'mutants', name)
        scratch = tempfile.mkdtemp(prefix='ztr-mut-')
        try:
            shutil.copytree('/repo/src', scratch + '/src',
                            ignore=shutil.ignore_patterns('__pycache__'))
            if name.endswith('.sh'):
                subprocess.run(['sh', mut], cwd=scratch, check=False)
            else:
                subprocess.run('patch -s -p1 < %s' % mut, shell=True,
                               cwd=scratch, check=False)
            d = subprocess.run(
                ['diff', '-r', '-x', '__pycache__', '/repo/src',
                 scratch + '/src'], stdout=subprocess.PIPE)
            changed = sum(1 for l in d.stdout.decode('utf-8', 'replace')
                          .splitlines() if l[:1] in '<>')
            comp = subprocess.run(
                ['/venv/bin/python', '-m', 'compileall', '-q', '-l',
                 scratch + '/src/zope/testrunner'],
                stdout=subprocess.PIPE, stderr=subprocess.STDOUT,
                env=dict(os.environ, PYTHONDONTWRITEBYTECODE='1'))
            t0 = time.time()
            env = dict(os.environ, ZTR_VERIF_SRC=scratch + '/src')
            p = subprocess.run(
                [os.path.join(VERIF, 'check'), check, '--tier', 'quick',
                 '--no-evidence'], env=env, stdout=subprocess.PIPE,
                stderr=subprocess.STDOUT)
            log = p.stdout.decode('utf-8', 'replace')
            m = re.search(r'rule=(\S+) mech=(\S+)', log)
            res[name] = {
                'check': check, 'changed_lines': changed,
                'compiles': comp.returncode == 0,
                'exit': p.returncode,
                'first_rule': m.group(1) if m else None,
                'first_mech': m.group(2) if m else None,
                'seconds': round(time.time() - t0),
            }
            print(name, res[name], flush=True)
        finally:
            shutil.rmtree(scratch, ignore_errors=True)
        with open(out_path, 'w') as f:
            json.dump(res, f, indent=1, sort_keys=True)
    missed = [n for n, r in res.items()
              if r['changed_lines'] and r['exit'] != 1]
    noop = [n for n, r in res.items() if not r['changed_lines']]
    print('missed:', missed)
    print('no-op mutations (source no longer matches):', noop)
    return 1 if missed or noop else 0


if __name__ == '__main__':
    sys.exit(main())
