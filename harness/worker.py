"""Worker process: run a batch of cases of one check, one JSON line each."""
import importlib
import json
import os
import sys
import time
import traceback

HARNESS = os.path.dirname(os.path.abspath(__file__))
sys.path.insert(0, HARNESS)


def main():
    prop, batch_path, out_path = sys.argv[1:4]
    mod = importlib.import_module('checks.' + prop.lower())
    batch = json.load(open(batch_path))
    out = open(out_path, 'a')
    real_stdout = sys.stdout
    for idx, case in batch:
        t0 = time.time()
        try:
            r = mod.run_case(case) or {}
        except BaseException as e:   # noqa
            if isinstance(e, KeyboardInterrupt):
                raise
            r = {'inconclusive': 'harness error: %r' % (e,),
                 'tb': traceback.format_exc()[-3000:]}
        sys.stdout = real_stdout
        r['case'] = idx
        r['wall'] = round(time.time() - t0, 3)
        out.write(json.dumps(r, default=repr) + '\n')
        out.flush()


if __name__ == '__main__':
    main()
