"""Helpers shared by world-based checks."""
import json
import os

import runcase
import vworld


class WorldRun:
    pass


# Options that none of the properties quantifies over and that must not change
# what a check observes: a quarter of all world runs get one to three of them
# (chosen from a hash of the case, so a replay draws the same ones).  They
# reach option parsing, the defaults/command-line merge, the arguments handed
# to layer subprocesses and the formatter selection.
NEUTRAL = ['--exit-with-status', '-1', '--show-secondary-failures',
           '--slow-test=1000', '--udiff', '--ndiff', '--cdiff',
           '--ignore_dir=zz_no_such_dir', '--suite-name=test_suite',
           '--keepbytecode', '--auto-color', '--no-color', '--auto-progress',
           '--no-progress', '--require-unique']


def neutral_words(spec, opts, argv, root=''):
    if os.environ.get('ZTR_NO_NEUTRAL'):
        return []
    import random
    import zlib
    rng = random.Random(zlib.crc32(json.dumps(
        [spec.get('prefix'), [str(a).replace(root, '<root>') for a in argv[2:]]],
        sort_keys=True, default=str).encode()))
    if rng.random() >= 0.25:
        return []
    pool = list(NEUTRAL)
    words = ' '.join(argv)
    if (opts or {}).get('color') or '--color' in words or ' -c' in words:
        pool = [w for w in pool if 'color' not in w]
    if (opts or {}).get('progress') or '--progress' in words or \
            ' -p' in words:
        pool = [w for w in pool if 'progress' not in w]
    tids = [t[0] for t in vworld.iter_tests(spec)]
    if (len(set(tids)) != len(tids) or (opts or {}).get('module') or
            '-m' in argv or spec.get('no_require_unique') or
            any(True for _ in vworld.iter_units(spec))):
        pool.remove('--require-unique')
    out = rng.sample(pool, rng.randint(1, 3))
    diffs = [w for w in out if w in ('--udiff', '--ndiff', '--cdiff')]
    for w in diffs[1:]:
        out.remove(w)       # "Can only give one of --ndiff, --udiff, --cdiff"
    return out


def run_world(spec, plan=None, opts=None, extra_argv=(), mode='in',
              env_extra=None, timeout=120, keep=False, python=None,
              markers=False, path_opt='--path', pre=None, post=None,
              warnings=None, stdin=None, root=None, script_parts=None,
              launcher=None, run_cwd=None, cwd=None):
    """Materialise (unless root given), run, destroy.  Returns WorldRun with
    .r (Inproc/CliResult), .events, .out, .info, .verdict, .raised."""
    own_root = root is None
    if own_root:
        root = vworld.materialise(spec)
    w = WorldRun()
    w.root = root
    try:
        plan_path = None
        if plan:
            plan_path = os.path.join(root, 'plan-%d.json' % (abs(hash(
                json.dumps(plan, sort_keys=True))) % 10**9))
            with open(plan_path, 'w') as f:
                json.dump(plan, f)
        trace = os.path.join(root, 'trace-%d.jsonl' % len(os.listdir(root)))
        w.moved_to_defaults = []
        if opts and opts.get('_defaults') is None and \
                opts.get('_order') is None and launcher is None and \
                script_parts is None and \
                not os.environ.get('ZTR_NO_NEUTRAL'):
            # 15 % of the world runs: the options in another order on the
            # command line and some of them in the "defaults" of the script
            # (what a buildout-generated bin/test passes); layer
            # subprocesses get those as --default words
            import random
            import zlib
            h = zlib.crc32(json.dumps(
                [spec.get('prefix'), 'defaults', sorted(
                    (k, repr(v)) for k, v in opts.items())],
                default=str).encode())
            if h % 100 < 15:
                rng = random.Random(h)
                keys = [k for k in vworld.SCALAR_KEYS
                        if opts.get(k) not in (None, False, 0)]
                moved = [k for k in keys if rng.random() < 0.6]
                opts = dict(opts, _order=h >> 7, _defaults=moved)
                w.moved_to_defaults = moved
        defaults, oargv = vworld.opts_split(opts or {})
        argv = [path_opt, root] + oargv + list(extra_argv)
        w.neutral = neutral_words(spec, opts, argv, root)
        argv += w.neutral
        # the search path as people type it: relative to the directory the
        # runner is started in - and one of the first tests works in a
        # scratch directory and does not go back (12 % of the world runs;
        # layer subprocesses must still be started where the run started)
        w.relative = False
        if cwd is None and run_cwd is None and launcher is None and \
                script_parts is None and not os.environ.get('ZTR_NO_NEUTRAL'):
            import zlib
            h = zlib.crc32(json.dumps(
                [spec.get('prefix'), 'rel',
                 [str(a).replace(root, '<root>') for a in argv[2:]]],
                sort_keys=True, default=str).encode())
            if h % 100 < 12:
                w.relative = True
                cwd = os.path.dirname(root)
                argv[1] = os.path.basename(root)
                env_extra = dict(env_extra or {},
                                 ZTR_CHDIR_TESTS=str(1 + (h >> 8) % 3))
        mdir = None
        if markers:
            mdir = os.path.join(root, 'markers-%d' % len(os.listdir(root)))
            os.makedirs(mdir, exist_ok=True)
        w.argv = argv
        if mode == 'in':
            ee = dict(env_extra or {})
            if mdir:
                ee['ZTR_MARKERS'] = mdir
            r = runcase.run_inproc(
                argv, os.path.join(root, 'world.json'), trace, plan=plan_path,
                purge=(spec['prefix'],), env_extra=ee, pre=pre, post=post,
                warnings=warnings, stdin=stdin, script_parts=script_parts,
                run_cwd=run_cwd, defaults=defaults, cwd=cwd)
            w.out = r.out
            w.raised = r.raised
            w.raised_tb = r.raised_tb
            w.verdict = None if r.raised is not None else bool(r.returned)
            w.rc = None
        else:
            if defaults:
                env_extra = dict(env_extra or {},
                                 ZTR_DEFAULTS=json.dumps(defaults))
            r = runcase.run_cli(
                argv, os.path.join(root, 'world.json'), trace, plan=plan_path,
                env_extra=env_extra, timeout=timeout, python=python,
                markers=mdir, cwd=cwd or root, launcher=launcher)
            w.out = r.out
            w.err = r.err
            w.rc = r.rc
            w.timed_out = r.timed_out
            w.raised = None
            w.raised_tb = None
            if r.timed_out:
                w.verdict = None
            elif r.rc in (0, 1):
                w.verdict = bool(r.rc)
            else:
                w.verdict = None
                w.raised = 'exit status %r' % r.rc
                w.raised_tb = (r.out[-1500:] + '\n--stderr--\n' +
                               r.err[-1500:])
        w.r = r
        w.events = r.events
        w.info = runcase.parse_output(w.out)
        w.cviol = contract_viols(w.events)
        w.mdir = mdir
    finally:
        if own_root and not keep:
            vworld.destroy(root)
    return w


def ran_counts(events, kind='test.body'):
    ran = {}
    for e in events:
        if e['k'] == kind:
            ran[e['id']] = ran.get(e['id'], 0) + 1
    return ran


def shape_of(spec):
    """Skeleton signature of a world."""
    return [[(ls['name'], ls.get('kind'), ls.get('bases'),
              sorted(ls.get('hooks') or {})) for ls in spec.get('layers', [])],
            [(m['name'], _shape_node(m['suite']))
             for m in spec.get('modules', [])]]


def _shape_node(n):
    if n['t'] == 'class':
        return ['c', n.get('layer'), n.get('level'),
                [(t['name'], t['kind']) for t in n['tests']]]
    return ['s', n.get('layer'), n.get('level'),
            [_shape_node(c) for c in n.get('ch', [])]]


def contract_viols(events):
    """contract.violation events recorded by the in-run monitors."""
    out = []
    for e in events:
        if e.get('k') == 'contract.violation':
            d = {k: v for k, v in e.items()
                 if k not in ('k', 'seq', 't', 'contract')}
            out.append({'rule': 'contract:' + str(e.get('contract')),
                        'mech': 'contract-' + str(e.get('contract')),
                        'detail': d})
    return out


def monitor_errors(events):
    return [(e.get('where'), e.get('err')) for e in events
            if e.get('k') == 'monitor.error']


def judge_nested(events, V, C):
    """Runs of the runner started by a test of the world (action
    nested_run): the inner run must come to its own verdict, must not raise,
    and must leave the interpreter-global state as it found it (that state
    is the *outer* run's: its gc settings, its trace function, its
    traceback functions ...)."""
    for e in events:
        if e.get('k') != 'nested.run':
            continue
        C('nested_runs')
        if e.get('raised') is not None:
            V('nested-run-raised', 'nested-run-raised', raised=e['raised'],
              inner_argv=e.get('argv'))
        elif bool(e.get('failed')) != bool(e.get('want_failed')):
            V('nested-run-verdict-differs-from-facts', 'nested-run-verdict',
              failed=e.get('failed'), want=e.get('want_failed'),
              inner_argv=e.get('argv'), ran=e.get('ran_line'))
        if e.get('state_diff'):
            V('global-state-not-restored',
              'nested-state-not-restored-' + '+'.join(e['state_diff']),
              diff=e.get('diff_detail'), inner_argv=e.get('argv'))
