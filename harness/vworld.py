"""Harness side of generated worlds: materialise a spec on disk, and the
reference models (computed from the spec only, never by calling the runner).
"""
import json
import os
import re
import shutil
import tempfile

UNIT = 'zope.testrunner.layer.UnitTests'

STUB = '''\
import vworld_rt
globals().update(vworld_rt.build_module(__name__, __file__))
'''

LAYERS_STUB = '''\
import vworld_rt
globals().update(vworld_rt.build_layers(__name__))
'''

SCRATCH_ROOT = os.environ.get('ZTR_SCRATCH') or os.path.join(
    tempfile.gettempdir(), 'ztr-verif-scratch')


def scratch_dir(prefix='w'):
    os.makedirs(SCRATCH_ROOT, exist_ok=True)
    return tempfile.mkdtemp(prefix=prefix, dir=SCRATCH_ROOT)


def materialise(spec, root=None, order=None):
    """Write the world to disk.  Returns the root directory."""
    if root is None:
        root = scratch_dir()
    files = []
    lm = spec.get('layers_module')
    if lm:
        files.append((lm.replace('.', '/') + '.py', LAYERS_STUB))
    for m in spec.get('modules', []):
        files.append((m['file'], m.get('source') or STUB))
    for extra in spec.get('extra_files', []):
        files.append((extra['file'], extra.get('content', '')))
    # package __init__ files
    inits = set()
    for rel, _ in list(files):
        parts = rel.split('/')[:-1]
        for i in range(1, len(parts) + 1):
            d = '/'.join(parts[:i])
            if d in spec.get('no_init', []):
                continue
            inits.add(d + '/__init__.py')
    have = {rel for rel, _ in files}
    for rel in sorted(inits):
        if rel not in have:
            files.append((rel, ''))
    if order is not None:
        order.shuffle(files)
    for rel, content in files:
        p = os.path.join(root, rel)
        os.makedirs(os.path.dirname(p), exist_ok=True)
        with open(p, 'w', encoding='utf-8') as f:
            f.write(content)
    with open(os.path.join(root, 'world.json'), 'w') as f:
        json.dump(spec, f)
    return root


def destroy(root):
    shutil.rmtree(root, ignore_errors=True)


# ---------------------------------------------------------------- the model

def layer_closure(spec, name):
    """Transitive bases of a layer including itself (short names)."""
    specs = {ls['name']: ls for ls in spec.get('layers', [])}
    seen = []

    def walk(n):
        if n in seen:
            return
        seen.append(n)
        for b in specs[n].get('bases', []) if n in specs else []:
            walk(b)
    walk(name)
    return set(seen)


def full_layer_name(spec, short):
    if short is None or short == 'UNIT':
        return UNIT
    return spec['layers_module'] + '.' + short


def layer_pattern(spec, short):
    """A --layer pattern that selects exactly this layer (layer names may
    contain characters that mean something in a regular expression; when one
    name is the tail of another the pattern is anchored at both ends)."""
    if short is None or short == 'UNIT':
        return 'UnitTests$'
    return '^%s$' % re.escape(full_layer_name(spec, short))


def class_mro(spec, name):
    """MRO (short names) for class layers; for instance layers: closure
    in DFS order."""
    specs = {ls['name']: ls for ls in spec.get('layers', [])}
    out = []

    def walk(n):
        if n in out or n not in specs:
            return
        out.append(n)
        for b in specs[n].get('bases', []):
            walk(b)
    walk(name)
    return out


def has_hook(spec, lname, hook, plan=None):
    """Does the runner see (hasattr) this hook on the layer?"""
    specs = {ls['name']: ls for ls in spec.get('layers', [])}
    ls = specs.get(lname)
    if ls is None:
        return False
    hooks = dict(ls.get('hooks') or {})
    if plan:
        hooks.update((plan.get('layers') or {}).get(lname) or {})
    if hook in hooks:
        return True
    if ls.get('kind', 'class') == 'class':
        for b in class_mro(spec, lname)[1:]:
            bs = specs[b]
            if bs.get('kind', 'class') == 'class':
                bh = dict(bs.get('hooks') or {})
                if plan:
                    bh.update((plan.get('layers') or {}).get(b) or {})
                if hook in bh:
                    return True
    return False


def iter_tests(spec):
    """Yield (test_id, tspec, layer_short_or_None, level, module, clsspec)
    using the nearest-declaration rule (C09)."""
    for m in spec.get('modules', []):
        if m.get('fault') or m.get('fault_test_suite') or m.get('bad_suite'):
            continue

        def walk(node, layer, level, flat=False):
            if node.get('layer') is not None:
                layer = node['layer']
            if node.get('level') is not None:
                level = node['level']
            if node['t'] == 'class':
                for ts in sorted(node['tests'], key=lambda t: t['name']):
                    tid = '%s.%s.%s' % (m['name'], node['name'], ts['name'])
                    # in a flat suite a test instance may declare for
                    # itself: nearest of all
                    il = ts.get('ilayer') if flat else None
                    iv = ts.get('ilevel') if flat else None
                    yield (tid, ts, layer if il is None else il,
                           level if iv is None else iv, m, node)
            elif node['t'] == 'suite':
                for ch in node.get('ch', []):
                    yield from walk(ch, layer, level,
                                    bool(node.get('flat')))
            # 'doctest' / 'docfile' nodes are not modelled here
        if m.get('use_test_suite', True):
            yield from walk(m['suite'], None, 1)
        else:
            # loadTestsFromModule: classes in dir() order, no suite attrs
            classes = []

            def collect(node):
                if node['t'] == 'class':
                    if node['name'] not in [c['name'] for c in classes]:
                        classes.append(node)
                else:
                    for ch in node.get('ch', []):
                        collect(ch)
            collect(m['suite'])
            for node in sorted(classes, key=lambda c: c['name']):
                yield from walk(node, None, 1)


def iter_units(spec):
    """(module spec, unit node, layer short or None, level) for every class
    that is run as a unit (vworld_rt.UnitEntry); the declaration on the node
    itself is the nearest one.  iter_tests() does not know these nodes."""
    for m in spec.get('modules', []):
        def walk(node, layer, level):
            if node.get('layer') is not None:
                layer = node['layer']
            if node.get('level') is not None:
                level = node['level']
            if node['t'] == 'unit':
                yield (m, node, layer, level)
            elif node['t'] == 'suite':
                for ch in node.get('ch', []):
                    yield from walk(ch, layer, level)
        yield from walk(m['suite'], None, 1)


def selected(patterns, name):
    """C08's algebraic spec."""
    pos = [p for p in patterns if not p.startswith('!')]
    neg = [p[1:] for p in patterns if p.startswith('!')]
    if not pos and neg:
        ok = True
    else:
        ok = any(re.search(p, name) for p in pos)
    return bool(ok and not any(re.search(p, name) for p in neg))


def test_str(tid, pyver=None):
    """str(test) for a TestCase id on the running interpreter."""
    import sys
    mod_cls, meth = tid.rsplit('.', 1)
    v = pyver or sys.version_info[:2]
    if v >= (3, 11):
        return '%s (%s)' % (meth, tid)
    return '%s (%s)' % (meth, mod_cls)


STR_RE = re.compile(r'^\s*(\w+) \(([\w.]+)\)(?: \[[^\]]*\])?\s*$')


def id_from_str(s):
    m = STR_RE.match(s)
    if not m:
        return None
    meth, paren = m.groups()
    if paren.endswith('.' + meth):
        return paren
    return paren + '.' + meth


def expected_tests(spec, opts, pyver=None):
    """{layer_full_name: [test ids in discovery order]} for the options.

    opts: dict with keys test, module, layer (pattern lists or None),
    at_level (int), all (bool), only_level (int|None), unit, non_unit.
    """
    test_p = opts.get('test') or ['.']
    mod_p = opts.get('module') or ['.']
    layer_p = opts.get('layer')
    unit = bool(opts.get('unit'))
    non_unit = bool(opts.get('non_unit'))
    if unit and non_unit:
        unit = non_unit = False
    if unit:
        layer_p = [UNIT]
    at_level = opts.get('at_level', 1)
    if at_level is None:
        at_level = 1
    only = opts.get('only_level')
    all_ = bool(opts.get('all'))
    out = {}
    pkgs = opts.get('package') or None
    for tid, ts, layer, level, m, node in iter_tests(spec):
        if not selected(mod_p, m['name']):
            continue
        if pkgs and not any(m['name'] == p or m['name'].startswith(p + '.')
                            for p in pkgs):
            # -s / --package: only what lies in one of the packages (a
            # package given together with one of its sub-packages still
            # selects every test once)
            continue
        if only is not None:
            if level != only:
                continue
        elif not (all_ or at_level <= 0 or level <= at_level):
            continue
        if not selected(test_p, test_str(tid, pyver)):
            continue
        lname = full_layer_name(spec, layer)
        if lname == UNIT:
            if non_unit:
                continue
            if layer_p and not selected(layer_p, lname):
                continue
        else:
            if layer_p and not selected(layer_p, lname):
                continue
        out.setdefault(lname, []).append(tid)
    return out


SCALAR_KEYS = ('unit', 'non_unit', 'at_level', 'all', 'only_level', 'repeat',
               'shuffle_seed', 'shuffle', 'stop', 'buffer', 'verbose',
               'processes', 'color', 'progress', 'shuffle_seed_alone')


def _opt_groups(opts):
    """[(key, [argv words])] in the canonical order."""
    g = []
    for p in opts.get('test') or []:
        g.append(('test', ['-t', p]))
    for p in opts.get('module') or []:
        g.append(('module', ['-m', p]))
    for p in opts.get('layer') or []:
        g.append(('layer', ['--layer', p]))
    if opts.get('unit'):
        g.append(('unit', ['-u']))
    if opts.get('non_unit'):
        g.append(('non_unit', ['-f']))
    if opts.get('at_level') is not None:
        g.append(('at_level', ['--at-level=%d' % opts['at_level']]))
    if opts.get('all'):
        g.append(('all', ['--all']))
    if opts.get('only_level') is not None:
        g.append(('only_level', ['--only-level=%d' % opts['only_level']]))
    if opts.get('repeat'):
        g.append(('repeat', ['--repeat', str(opts['repeat'])]))
    if opts.get('shuffle_seed') is not None:
        g.append(('shuffle_seed', ['--shuffle',
                                   '--shuffle-seed=%d' % opts['shuffle_seed']]))
    elif opts.get('shuffle'):
        g.append(('shuffle', ['--shuffle']))
    if opts.get('shuffle_seed_alone') is not None:
        # the seed without the switch (e.g. in the script's defaults while
        # --shuffle is typed on the command line)
        g.append(('shuffle_seed_alone',
                  ['--shuffle-seed=%d' % opts['shuffle_seed_alone']]))
    if opts.get('stop'):
        g.append(('stop', ['-x']))
    if opts.get('buffer'):
        g.append(('buffer', ['--buffer']))
    if opts.get('verbose'):
        g.append(('verbose', ['-' + 'v' * opts['verbose']]))
    if opts.get('processes'):
        g.append(('processes', ['-j', str(opts['processes'])]))
    for p in opts.get('package') or []:
        g.append(('package', ['-s', p]))
    if opts.get('color'):
        g.append(('color', ['--color']))
    if opts.get('progress'):
        g.append(('progress', ['--progress']))
    return g


def opts_split(opts):
    """(defaults, argv) for an option vector.

    opts['_order'] (an int) puts the options on the command line in a
    shuffled order; opts['_defaults'] (a list of keys out of SCALAR_KEYS)
    moves those options into the 'defaults' of the script (what a buildout
    generated bin/test passes) - the command line comes after them."""
    g = _opt_groups(opts)
    if opts.get('_order') is not None:
        import random
        random.Random(opts['_order']).shuffle(g)
    dk = set(opts.get('_defaults') or ()) & set(SCALAR_KEYS)
    defaults = [w for k, ws in g if k in dk for w in ws]
    argv = [w for k, ws in g if k not in dk for w in ws]
    return defaults, argv


def opts_to_argv(opts):
    defaults, argv = opts_split(opts)
    return defaults + argv


# outcome events per kind: (failures, errors, skips, counted_as_run_variants)
def outcome_events(ts):
    """Number of (failure, error, skip, uxsuccess) result events a test of
    this kind produces under unittest."""
    k = ts['kind']
    if k in ('pass', 'xfail'):
        return (0, 0, 0, 0)
    if k in ('fail', 'setup_fail'):
        return (1, 0, 0, 0)
    if k in ('error', 'setup_error', 'teardown_error', 'cleanup_error',
             'cleanup_builtin_error', 'sysexit'):
        return (0, 1, 0, 0)
    if k in ('body_teardown_error', 'body_cleanup_error'):
        return (0, 2, 0, 0)
    if k == 'fail_teardown_error':
        return (1, 1, 0, 0)
    if k in ('skip_deco', 'skip_setup', 'skip_body'):
        return (0, 0, 1, 0)
    if k == 'uxsuccess':
        return (0, 0, 0, 1)
    if k == 'subtests':
        subs = ts.get('subs', ['F'])
        return (subs.count('F'), subs.count('E'), subs.count('S'), 0)
    raise KeyError(k)


def is_bad(ts):
    f, e, s, u = outcome_events(ts)
    return bool(f or e or u)
