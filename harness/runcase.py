"""Run the real runner on a world: in-process or as CLI; collect observations.
"""
import io
import os
import re
import subprocess
import sys
import threading
import time
import traceback

HARNESS = os.path.dirname(os.path.abspath(__file__))
SITE = os.path.join(HARNESS, 'site')
LAUNCHER = os.path.join(SITE, 'ztr_launcher.py')
VENV_PY = '/venv/bin/python'
VENV_SITE = '/venv/lib/python3.12/site-packages'
DEPS = os.path.join(os.path.dirname(HARNESS), '.deps')
SRC = os.environ.get('ZTR_VERIF_SRC') or '/repo/src'


def base_env(extra=None, python=None):
    env = dict(os.environ)
    pp = [SITE]
    if python and python != VENV_PY:
        pp += [SRC, VENV_SITE]
    if os.path.isdir(DEPS):
        pp.append(DEPS)
    env['PYTHONPATH'] = os.pathsep.join(pp)
    env['ZOPE_TESTRUNNER_VERIF'] = '1'
    env['PYTHONDONTWRITEBYTECODE'] = '1'
    env.setdefault('PYTHONHASHSEED', '0')
    env['ZTR_VERIF_SRC'] = SRC
    env.pop('COVERAGE_PROCESS_START', None)
    if extra:
        for k, v in extra.items():
            if v is None:
                env.pop(k, None)
            else:
                env[k] = str(v)
    return env


# ------------------------------------------------------------- the Recorder

class _RecBuffer(io.RawIOBase):
    def __init__(self, rec):
        self.rec = rec

    def writable(self):
        return True

    def write(self, b):
        self.rec._add(bytes(b).decode('utf-8', 'replace'))
        return len(b)

    def flush(self):
        # a flush may block (full pipe, slow terminal): ZTR_SLOW_FLUSH_MS
        # makes every n-th one take that long
        ms = os.environ.get('ZTR_SLOW_FLUSH_MS')
        if ms:
            self.rec._flushes = getattr(self.rec, '_flushes', 0) + 1
            if self.rec._flushes % 3 == 0:
                time.sleep(float(ms) / 1000.0)


class Recorder(io.TextIOBase):
    """A terminal-like text stream that records writes in order.

    Deliberately has no ``getvalue`` so that it behaves like a real stream.
    Both Recorder objects of a run share one ordered log."""

    encoding = 'utf-8'
    errors = 'replace'

    def __init__(self, log, tag, lock):
        self._log = log
        self._tag = tag
        self._lock = lock
        self.buffer = _RecBuffer(self)

    def _add(self, s):
        with self._lock:
            self._log.append((self._tag, s))

    def writable(self):
        return True

    def write(self, s):
        if not isinstance(s, str):
            raise TypeError('write() argument must be str, not %s'
                            % type(s).__name__)
        if os.environ.get('ZTR_STRICT_STDOUT') and not s.isascii():
            # a stream with a narrow, strict encoding (PYTHONIOENCODING=
            # ascii, the C locale of an embedding program): run_internal()
            # does not switch the std streams to backslashreplace
            i = next(k for k, c in enumerate(s) if ord(c) > 127)
            raise UnicodeEncodeError('ascii', s, i, i + 1,
                                     'ordinal not in range(128)')
        self._add(s)
        return len(s)

    def flush(self):
        pass

    def isatty(self):
        return False

    def fileno(self):
        raise io.UnsupportedOperation('fileno')


class InprocResult:
    def __init__(self):
        self.returned = None
        self.raised = None
        self.raised_tb = None
        self.log = []
        self.events = []
        self.wall = 0.0
        self.streams_restored = None

    @property
    def out(self):
        return ''.join(s for _, s in self.log)

    def text(self, tag):
        return ''.join(s for t, s in self.log if t == tag)


_case_counter = [0]


def run_inproc(argv, world_json=None, trace=None, plan=None, cwd=None,
               env_extra=None, pre=None, post=None, warnings=None,
               defaults=None, stdin=None, purge=('w',), purge_under=None,
               script_parts=None, run_cwd=None):
    """Call the real run_internal in this process.

    purge: prefixes of world module names to drop from sys.modules."""
    import vtrace
    import vworld_rt
    import zope.testrunner
    res = InprocResult()
    saved_env = {}
    setenv = {'ZTR_WORLD': world_json, 'ZTR_TRACE': trace, 'ZTR_PLAN': plan}
    setenv.update(env_extra or {})
    for k, v in setenv.items():
        saved_env[k] = os.environ.get(k)
        if v is None:
            os.environ.pop(k, None)
        else:
            os.environ[k] = str(v)
    vtrace.reset()
    vworld_rt.forget_worlds()
    vworld_rt.EXEC_COUNT.clear()
    vworld_rt.RAN_IN_PROCESS.clear()
    try:
        import ztr_monitor
        ztr_monitor.reset_run_state()
    except ImportError:
        pass
    lock = threading.RLock()
    rec_out = Recorder(res.log, 'out', lock)
    rec_err = Recorder(res.log, 'err', lock)
    old_out, old_err, old_in = sys.stdout, sys.stderr, sys.stdin
    old_cwd = os.getcwd()
    old_path = list(sys.path)
    old_mods = set(sys.modules)
    import logging
    old_handlers = list(logging.getLogger().handlers)
    sys.stdout, sys.stderr = rec_out, rec_err
    if stdin is not None:
        sys.stdin = stdin
    vworld_rt.ORIG_STDOUT = rec_out
    vworld_rt.ORIG_STDERR = rec_err
    if cwd:
        os.chdir(cwd)
    if pre:
        pre()
    t0 = time.time()
    try:
        try:
            vtrace.emit('run.enter', argv=argv)
            res.returned = zope.testrunner.run_internal(
                defaults=list(defaults or []), args=[LAUNCHER] + list(argv),
                script_parts=list(script_parts or [LAUNCHER]),
                warnings=warnings, cwd=run_cwd)
            vtrace.emit('run.return', value=bool(res.returned))
        except BaseException as e:   # noqa
            res.raised = e
            res.raised_tb = traceback.format_exc()
            vtrace.emit('run.raise', exc=type(e).__name__)
    finally:
        res.wall = time.time() - t0
        res.streams_restored = (sys.stdout is rec_out, sys.stderr is rec_err)
        res.final_stdout = sys.stdout
        res.final_stderr = sys.stderr
        if post:
            try:
                post(res)
            except Exception:
                res.post_error = traceback.format_exc()
        sys.stdout, sys.stderr, sys.stdin = old_out, old_err, old_in
        vworld_rt.ORIG_STDOUT = vworld_rt.ORIG_STDERR = None
        try:
            vworld_rt.release_all_threads()
        except Exception:
            pass
        os.chdir(old_cwd)
        sys.path[:] = old_path
        for m in sorted(sys.modules, reverse=True):
            if m in old_mods:
                continue
            if purge and m.startswith(tuple(purge)):
                del sys.modules[m]
            elif purge_under:
                mod = sys.modules[m]
                try:
                    f = getattr(mod, '__file__', None) or ''
                    pp = list(getattr(mod, '__path__', None) or [])
                    under = f.startswith(purge_under) or any(
                        str(x).startswith(purge_under) for x in pp)
                except Exception:
                    # namespace package whose parent is gone already
                    under = True
                if under:
                    del sys.modules[m]
        import importlib
        importlib.invalidate_caches()
        for h in list(logging.getLogger().handlers):
            if h not in old_handlers:
                logging.getLogger().removeHandler(h)
        for k, v in saved_env.items():
            if v is None:
                os.environ.pop(k, None)
            else:
                os.environ[k] = v
        vtrace.reset()
    if trace:
        res.events = vtrace.read(trace)
    return res


# ----------------------------------------------------------------- CLI runs

class CliResult:
    def __init__(self):
        self.rc = None
        self.out = ''
        self.err = ''
        self.timed_out = False
        self.events = []
        self.wall = 0.0


def run_cli(argv, world_json=None, trace=None, plan=None, cwd=None,
            env_extra=None, timeout=120, python=None, markers=None,
            launcher=None, stdin=None, prefix_cmd=None):
    python = python or VENV_PY
    extra = {'ZTR_WORLD': world_json, 'ZTR_TRACE': trace, 'ZTR_PLAN': plan,
             'ZTR_MARKERS': markers}
    extra.update(env_extra or {})
    env = base_env(extra, python=python)
    res = CliResult()
    t0 = time.time()
    p = subprocess.Popen(list(prefix_cmd or []) +
                         [python, launcher or LAUNCHER] + list(argv),
                         stdout=subprocess.PIPE, stderr=subprocess.PIPE,
                         stdin=subprocess.PIPE if stdin is None else stdin,
                         cwd=cwd, env=env, start_new_session=True)
    try:
        out, err = p.communicate(b'' if stdin is None else None,
                                 timeout=timeout)
    except subprocess.TimeoutExpired:
        res.timed_out = True
        # ask faulthandler (if registered) for stacks, then kill the group
        try:
            import signal
            os.kill(p.pid, signal.SIGUSR1)
            time.sleep(0.5)
            os.killpg(p.pid, signal.SIGKILL)
        except OSError:
            pass
        out, err = p.communicate()
    res.rc = p.returncode
    res.out = out.decode('utf-8', 'replace')
    res.err = err.decode('utf-8', 'replace')
    res.wall = time.time() - t0
    if trace:
        import vtrace
        res.events = vtrace.read(trace)
    return res


# ------------------------------------------------------------ output parser

# (the colourised formatter writes "errors, N skipped")
RAN_RE = re.compile(
    r'^  Ran (\d+) tests with (\d+) failures, (\d+) errors(?: and|,) (\d+) '
    r'skipped in (?:\d+ minutes )?[\d.]+ seconds\.$', re.M)
TOTAL_RE = re.compile(
    r'^Total: (\d+) tests, (\d+) failures, (\d+) errors(?: and|,) (\d+) '
    r'skipped in (?:\d+ minutes )?[\d.]+ seconds\.$', re.M)
GLUED_RAN_RE = re.compile(
    r'^(.*\S)(  Ran \d+ tests with \d+ failures, \d+ errors(?: and|,) \d+ '
    r'skipped in (?:\d+ minutes )?[\d.]+ seconds\.)$')
ANSI_RE = re.compile(r'\x1b\[[0-9;]*m')
HEADER_RE = re.compile(r'^Running (\S+) tests:$', re.M)


def parse_output(text):
    """Split runner output into per-layer blocks and the trailer."""
    info = {'layers': [], 'total': None, 'errors_list': None,
            'failures_list': None, 'seed': None}
    # --color wraps the text in SGR sequences, --progress rewrites the
    # current line with carriage returns
    text = ANSI_RE.sub('', text)
    lines = [ln.rsplit('\r', 1)[-1] if '\r' in ln.rstrip('\r') else ln
             for ln in text.split('\n')]
    # progress output that was not ended by a line break (a class level skip
    # at -vv has no stopTest) leaves the summary on the same line
    split = []
    for ln in lines:
        m = GLUED_RAN_RE.match(ln)
        if m:
            split += [m.group(1), m.group(2)]
        else:
            split.append(ln)
    lines = split
    cur = None
    i = 0
    while i < len(lines):
        ln = lines[i]
        m = HEADER_RE.match(ln)
        if m and m.group(1).endswith('.EmptyLayer'):
            # the fake first layer of a -j N parent: not a layer of the run
            cur = {'name': m.group(1), 'ran': [], 'lines': []}
            info['empty_layer'] = cur
        elif m:
            cur = {'name': m.group(1), 'ran': [], 'lines': []}
            info['layers'].append(cur)
        elif ln.startswith('Total: '):
            m = TOTAL_RE.match(ln)
            if m:
                info['total'] = tuple(int(x) for x in m.groups())
        elif ln == 'Tests with errors:' or ln == 'Tests with failures:':
            key = 'errors_list' if 'errors' in ln else 'failures_list'
            names = []
            i += 1
            while i < len(lines) and lines[i].startswith('   '):
                names.append(lines[i][3:])
                i += 1
            info[key] = names
            cur = None
            continue
        elif ln.startswith('Tests were shuffled using seed number '):
            try:
                info['seed'] = int(ln.split()[-1].rstrip('.'))
                if cur is not None:
                    # (a layer subprocess reports the seed it used at the
                    # end of its own block)
                    cur['seed'] = info['seed']
            except ValueError:
                pass
        elif ln.startswith('Tearing down left over layers:'):
            cur = None
            info.setdefault('leftover', True)
        else:
            m = RAN_RE.match(ln)
            if m and cur is not None:
                cur['ran'].append(tuple(int(x) for x in m.groups()))
            elif m:
                info.setdefault('orphan_ran', []).append(
                    tuple(int(x) for x in m.groups()))
            if cur is not None:
                cur['lines'].append(ln)
        i += 1
    return info


def parse_listing(text):
    """--list-tests output -> [(layer, [test strings])]."""
    out = []
    cur = None
    for ln in text.split('\n'):
        if ln.startswith('Listing ') and ln.endswith(' tests:'):
            cur = (ln[len('Listing '):-len(' tests:')], [])
            out.append(cur)
        elif ln.startswith('  ') and cur is not None:
            cur[1].append(ln[2:])
        elif ln.strip() == '':
            continue
        else:
            cur = None
    return out
