"""Ground truth for count/verdict oracles.

The number and names of the result events a generated test produces are
*calibrated against plain unittest* on the running interpreter (never against
zope.testrunner); which tests and layer hooks actually ran comes from the
trace facts."""
import io
import sys
import unittest

import vworld

_cache = {}


def calibrate_test(modname, cname, ts, pyver=None):
    """Run one generated test under plain unittest.TestResult.

    Returns dict: F/E/S/U/X lists of str(test or subtest), 'run' =
    testsRun, 'started' = whether setUp was reached."""
    key = (modname, cname, ts['name'], ts['kind'], tuple(ts.get('subs') or ()),
           ts.get('exc'), ts.get('exc2'), ts.get('submsg'),
           repr(sorted((ts.get('subkw') or {}).items())))
    if key in _cache:
        return _cache[key]
    import vworld_rt
    import vtrace
    world = vworld_rt.World({}, {})
    t2 = {k: v for k, v in ts.items() if k not in ('actions', 'kinds_seq')}
    cs = {'name': cname, 'tests': [t2]}
    saved_emit = vworld_rt.emit
    vworld_rt.emit = lambda *a, **k: None
    old = sys.stdout, sys.stderr
    sys.stdout = io.StringIO()
    sys.stderr = io.StringIO()
    try:
        cls = vworld_rt.build_class(world, modname, cs)
        res = unittest.TestResult()
        suite = unittest.TestLoader().loadTestsFromTestCase(cls)
        suite.run(res)
    finally:
        sys.stdout, sys.stderr = old
        vworld_rt.emit = saved_emit
    out = {'F': [str(t) for t, _ in res.failures],
           'E': [str(t) for t, _ in res.errors],
           'S': [str(t) for t, _ in res.skipped],
           'U': [str(t) for t in res.unexpectedSuccesses],
           'X': [str(t) for t, _ in res.expectedFailures],
           'run': res.testsRun}
    _cache[key] = out
    return out


def calibration_agrees():
    """The static table vworld.outcome_events must agree with plain unittest
    on this interpreter (harness sanity).  Returns list of disagreements."""
    import gen
    bad = []
    for k in gen.KINDS_ALL + ['setup_fail', 'body_cleanup_error', 'sysexit',
                               'cleanup_builtin_error']:
        ts = {'name': 'test_k', 'kind': k}
        if k == 'subtests':
            ts['subs'] = ['F', 'P', 'E', 'S']
        c = calibrate_test('calib_mod', 'CalibCls', ts)
        got = (len(c['F']), len(c['E']), len(c['S']), len(c['U']))
        want = vworld.outcome_events(ts)
        if got != want:
            bad.append((k, got, want))
    return bad


class Truth:
    pass


def compute(events, spec, plan=None, opts=None):
    """What really happened according to the facts.

    Returns Truth with
      .layers[short] = {'started': {tid: n}, 'F': [...names], 'E': [...],
                        'S': n, 'U': [...], 'nofact_selected': n}
      .layer_failures = ['Layer: <full>.setUp', ...]
      .import_failures = [module names]
      .bad = bool (anything went wrong)
    """
    plan = plan or {}
    opts = opts or {}
    import oracles
    model = oracles.LayerModel(spec, plan)
    tests = {tid: (ts, layer, m, node) for tid, ts, layer, lvl, m, node
             in vworld.iter_tests(spec)}
    units = {}
    for m, node, layer, level in vworld.iter_units(spec):
        for ts in node['tests']:
            tests['%s.%s.%s' % (m['name'], node['name'], ts['name'])] = \
                (ts, None if layer == 'UNIT' else layer, m, node)
        units['%s.%s' % (m['name'], node['name'])] = \
            'UNIT' if layer in (None, 'UNIT') else layer
    over = plan.get('tests') or {}
    T = Truth()
    T.units = units
    T.class_events = []
    T.layers = {}
    T.layer_failures = []
    T.import_failures = []
    T.crashes = []
    started = {}
    for e in events:
        k = e['k']
        if k == 'test.setUp':
            # one entry per execution: the kind it had that time (tests with
            # kinds_seq say so themselves), None = the static kind
            started.setdefault(e['id'], []).append(e.get('ek'))
        elif k in ('layer.setUp.exit', 'layer.tearDown.exit'):
            hook = 'setUp' if 'setUp' in k else 'tearDown'
            if not e.get('ok') and (hook == 'setUp' or
                                    e.get('exc') != 'NotImplementedError'):
                T.layer_failures.append('Layer: %s.%s' % (
                    vworld.full_layer_name(spec, e['layer']), hook))
        elif k == 'crash':
            T.crashes.append((e.get('at'), e.get('how'), e['pid']))
        elif k.startswith('class.') and e.get('cls') in units:
            # class level fixture of a class run as a unit: an error or a
            # skip event that belongs to no test
            T.class_events.append((units[e['cls']], k[6:], e['cls'],
                                   e.get('beh') or 'ok'))
    faults = dict((m['name'], m.get('fault')) for m in spec.get('modules', [])
                  if m.get('fault') or m.get('fault_test_suite') or
                  m.get('bad_suite'))
    faults.update(plan.get('modules') or {})
    imported = {e.get('mod') for e in events if e['k'] == 'mod.import'}
    parent = next((e['pid'] for e in events if e['k'] == 'run.enter'), None)
    T.import_failures_in_children = []
    for mname in faults:
        if (faults[mname] or {}).get('child_only'):
            # fails in layer subprocesses only
            if any(e['k'] == 'mod.import' and e.get('mod') == mname and
                   parent is not None and e['pid'] != parent
                   for e in events):
                T.import_failures_in_children.append(mname)
            continue
        # counted once: in the parent (children re-import, but only the
        # parent's discovery decides the verdict / totals)
        if any(e['k'] == 'mod.import' and e.get('mod') == mname and
               (parent is None or e['pid'] == parent) for e in events):
            T.import_failures.append(mname)
    for tid, kinds in started.items():
        if tid not in tests:
            continue
        ts, layer, m, node = tests[tid]
        ts = dict(ts)
        ts.update(over.get(tid) or {})
        ts.pop('kinds_seq', None)
        L = layer if layer is not None else 'UNIT'
        d = T.layers.setdefault(L, {'started': {}, 'F': [], 'E': [], 'S': 0,
                                    'U': [], 'X': 0})
        d['started'][tid] = len(kinds)
        its = d.setdefault('iters', [])
        for it, kind in enumerate(kinds):
            c = calibrate_test(m['name'], node['name'],
                               dict(ts, kind=kind) if kind else ts)
            # the n-th execution of a test belongs to --repeat iteration n
            while len(its) <= it:
                its.append({'tests': 0, 'F': 0, 'E': 0, 'S': 0})
            its[it]['tests'] += int(ts.get('count', 1))
            its[it]['F'] += len(c['F']) + len(c['U'])
            its[it]['E'] += len(c['E'])
            its[it]['S'] += len(c['S'])
            d['F'] += c['F']
            d['E'] += c['E']
            d['U'] += c['U']
            d['S'] += len(c['S'])
            d['X'] += len(c['X'])
    for L, hook, cname, beh in T.class_events:
        if beh == 'ok':
            continue
        d = T.layers.setdefault(L, {'started': {}, 'F': [], 'E': [], 'S': 0,
                                    'U': [], 'X': 0})
        its = d.setdefault('iters', [])
        if not its:
            its.append({'tests': 0, 'F': 0, 'E': 0, 'S': 0})
        # (worlds with such classes are not run with --repeat)
        if beh == 'skip':
            d['S'] += 1
            its[0]['S'] += 1
        else:
            d['E'].append('%s (%s)' % (hook, cname))
            its[0]['E'] += 1
    T.bad = bool(T.layer_failures or T.import_failures or T.crashes or
                 T.import_failures_in_children or any(
        d['F'] or d['E'] or d['U'] for d in T.layers.values()))
    T.model = model
    T.tests = tests
    return T
