"""Directory-tree generator and the discovery / stale-bytecode reference
models (written from the property statements C14 / C15)."""
import os
import re

IDENT = re.compile(r'[_a-zA-Z]\w*$')
DISCOVERY_IGNORED = {'.git', 'node_modules', '__pycache__'}
DEFAULT_IGNORE_DIR = ['.git', '.svn', 'CVS', '{arch}', '.arch-ids', '_darcs']

PY_STUB = '''\
import unittest
import vworld_rt
vworld_rt.file_imported(__name__, __file__)


class T(unittest.TestCase):
    def test_it(self):
        vworld_rt.emit('test.body', id=self.id(), file=__file__)


def test_suite():
    return unittest.defaultTestLoader.loadTestsFromTestCase(T)
'''

PY_FAIL_STUB = '''\
import vworld_rt
vworld_rt.file_imported(__name__, __file__)
raise ImportError('this test module cannot be imported: ' + __name__)
'''

INIT_STUB = '''\
import vworld_rt
vworld_rt.file_imported(__name__, __file__)
'''

DIR_NAMES = ['tests', 'tests', 'tests', 'ftests', 'pkg', 'sub', 'lib',
             'testing',
             'x-y', '1abc', '.git', 'node_modules', '__pycache__', 'CVS',
             '_darcs', 'tests2', 'my tests',
             # identifiers all the same: reserved words (a package named
             # 'lambda' is loaded with __import__ like any other), soft
             # keywords, letters beyond ASCII
             'lambda', 'global', 'if', 'async', 'match', 'caf\xe9']
FILE_NAMES = ['tests.py', 'tests.py', 'ftests.py', 'test_a.py', 'test_b.py',
              'test_a.py', 'test_c.py', 'testing.py',
              'helper.py', 'check_c.py', 'test_d.txt', 'tests.txt',
              'conftest.py', 'test-e.py', 'tests.py.bak', 'atest_f.py',
              'TESTS.py']


class FileMap(dict):
    """{relative path: kind}; .links = relative directories that are
    realised as symbolic links to a directory outside the search paths."""
    links = ()


def gen_tree(rng, prefix, depth=4, p_init=0.75, p_link=0.0):
    """Returns {relative path: kind} with kind 'py' | 'init' | 'other'.
    First-level names carry the case prefix so that they are unique."""
    files = FileMap()
    links = set()

    def fill(rel, d):
        names = set()
        for _ in range(rng.randint(1, 6)):
            names.add(rng.choice(FILE_NAMES))
        if rng.random() < p_init:
            names.add('__init__.py')
        for n in names:
            kind = 'init' if n == '__init__.py' else \
                ('py' if n.endswith('.py') else 'other')
            files[os.path.join(rel, n)] = kind
        if d <= 0:
            return
        subs = set()
        for _ in range(rng.randint(0, 3)):
            subs.add(rng.choice(DIR_NAMES))
        for s in subs:
            if p_link and rng.random() < p_link and \
                    not any(rel.startswith(l + '/') or rel == l
                            for l in links):
                links.add(os.path.join(rel, s))
            fill(os.path.join(rel, s), d - 1)

    for i in range(rng.randint(1, 3)):
        top = '%s_%s%d' % (prefix, rng.choice(['pkg', 'lib', 'app']), i)
        if rng.random() < 0.12:
            top = top.replace('_', '-', 1)     # not an identifier
        fill(top, rng.randint(1, depth - 1))
    # a plain file or two at the very top
    if rng.random() < 0.4:
        files['tests.py'] = 'py'
    files.links = sorted(l for l in links
                         if any(f.startswith(l + '/') for f in files))
    return files


def write_tree(root, files, order=None):
    items = list(files.items())
    if order is not None:
        order.shuffle(items)
    # directories realised as symbolic links: their content lives in
    # <root>/.linked/<n> (a name no walk enters), the link carries the name
    links = {}
    for n, l in enumerate(getattr(files, 'links', ())):
        target = os.path.join(root, '.linked', 'd%d' % n)
        os.makedirs(target, exist_ok=True)
        os.makedirs(os.path.dirname(os.path.join(root, l)), exist_ok=True)
        os.symlink(target, os.path.join(root, l))
        links[l] = target
    for rel, kind in items:
        p = os.path.join(root, rel)
        os.makedirs(os.path.dirname(p), exist_ok=True)
        with open(p, 'w') as f:
            if kind == 'py':
                f.write(PY_STUB)
            elif kind == 'pyfail':
                f.write(PY_FAIL_STUB)
            elif kind == 'init':
                f.write(INIT_STUB)
            else:
                f.write('not python\n')


def listing(files, rel):
    """(dirs, filenames) directly inside relative directory rel ('' = root)."""
    dirs, names = set(), set()
    pre = rel + '/' if rel else ''
    for f in files:
        if not f.startswith(pre):
            continue
        rest = f[len(pre):]
        if '/' in rest:
            dirs.add(rest.split('/', 1)[0])
        else:
            names.add(rest)
    return sorted(dirs), sorted(names)


def search(pattern):
    return re.compile(pattern).search


def expected_discovery(files, roots, tests_pattern='^tests$',
                       file_pattern='^test', ignore_dir=(), start_dirs=None):
    """C14 model.  roots: relative search directories ('' = tree root) in
    search order.  Returns list of (relative file, module name) in discovery
    order (top-down walk, names sorted inside each directory)."""
    tp = search(tests_pattern)
    fp = search(file_pattern)
    ign = set(DEFAULT_IGNORE_DIR) | set(ignore_dir)
    out = []
    seen = set()

    def walk(rel):
        dirs, names = listing(files, rel)
        base = os.path.basename(rel)
        cands = set()
        if tp(base) and '__init__.py' in names:
            for n in names:
                if n.endswith('.py') and fp(n[:-3]):
                    cands.add(n)
        for n in names:
            if n.endswith('.py') and tp(n[:-3]):
                cands.add(n)
        for n in sorted(cands):
            f = os.path.join(rel, n) if rel else n
            if f not in seen:
                seen.add(f)
                out.append(f)
        for d in dirs:
            if d in ign or not IDENT.match(d) or d in DISCOVERY_IGNORED:
                continue
            walk(os.path.join(rel, d) if rel else d)

    for r in (start_dirs if start_dirs is not None else roots):
        if not _isdir(files, r):
            continue
        walk(r)
    res = []
    for f in out:
        best = None
        for r in roots:
            pre = r + '/' if r else ''
            if f.startswith(pre) and (best is None or len(pre) > len(best)):
                best = pre
        if best is None:
            continue
        mod = f[len(best):-3].replace('/', '.')
        res.append((f, mod))
    return res


def _isdir(files, rel):
    if rel == '':
        return True
    return any(f.startswith(rel + '/') for f in files)


# ------------------------------------------------------------ C15 model

def bytecode_sets(files, roots, ignore_dir=()):
    """(must_delete, may_delete) relative paths.

    may:  *.pyc|*.pyo directly in a directory reachable from a search root
          without passing --ignore_dir names or __pycache__, with no sibling
          file of the same name ending .py;
    must: the same, restricted to directories reached through
          identifier-named, discovery-visible directories and to names with
          a non-empty stem."""
    ign = set(DEFAULT_IGNORE_DIR) | set(ignore_dir)
    may, must = set(), set()

    def walk(rel, strict):
        dirs, names = listing(files, rel)
        for n in names:
            if n[-4:] in ('.pyc', '.pyo') and n[:-1] not in names:
                f = os.path.join(rel, n) if rel else n
                may.add(f)
                if strict and len(n) > 4:
                    must.add(f)
        for d in dirs:
            if d in ign or d == '__pycache__':
                continue
            ok = bool(IDENT.match(d)) and d not in DISCOVERY_IGNORED
            walk(os.path.join(rel, d) if rel else d, strict and ok)

    for r in roots:
        if _isdir(files, r):
            walk(r, True)
    return must, may
