#!/bin/sh
# usage: seeded_par.sh [jobs] [name-glob]
# like seeded_all.sh, several seeded changes at a time (each check still
# spreads over all cores: use 3-4 jobs)
here="$(cd "$(dirname "$0")/.." && pwd)"
jobs="${1:-4}"; glob="${2:-C*}"
ls -d "$here"/seeded/$glob/ | while read d; do
  n=$(basename "$d"); [ -f "$d/patch.diff" ] || continue
  [ "$n" = "C05-test-state-kept" ] && continue
  echo "$n"
done | xargs -P "$jobs" -I{} sh -c 'n={}; p=${n%%-*}; echo "== $n: $(sh '"$here"'/harness/seeded_eval.sh '"$here"'/seeded/$n $p 2>&1 | tail -1 | cut -c1-160)"'
