#!/usr/bin/env python3
"""Print the markdown tables of DESIGN.md section 9 from seeded/*/ and
mutants/RESULTS.json."""
import json
import os
import re

VERIF = os.path.dirname(os.path.dirname(os.path.abspath(__file__)))


def first_line(path):
    try:
        for ln in open(path, encoding='utf-8'):
            ln = ln.strip().lstrip('#').strip()
            if ln:
                return ln
    except OSError:
        pass
    return ''


def main():
    rounds = json.load(open(os.path.join(VERIF, 'seeded', 'ROUNDS.json')))
    which = {}
    later = sorted((k for k in rounds if k.startswith('round') and
                    k[5:].isdigit() and int(k[5:]) >= 2),
                   key=lambda k: int(k[5:]))
    for rnd in later:
        for name, d in (rounds.get(rnd) or {}).items():
            if not name.startswith('_') and isinstance(d, dict):
                which[name] = (rnd, d)
    rows = []
    for name in sorted(os.listdir(os.path.join(VERIF, 'seeded'))):
        d = os.path.join(VERIF, 'seeded', name)
        if not os.path.isdir(d):
            continue
        det = {}
        try:
            det = json.load(open(os.path.join(d, 'detection.json')))
        except (OSError, ValueError):
            pass
        prop = name.split('-')[0]
        r = det.get(prop) or {}
        m = re.search(r'rule=(\S+)', r.get('first') or '')
        rnd, info = which.get(name, ('round1', {'as_was': True}))
        aw = None
        try:
            aw = json.load(open(os.path.join(d, 'detection_as_was.json')))
            aw = (aw.get(prop) or {}).get('exit')
        except (OSError, ValueError):
            pass
        as_was = info.get('as_was')
        if aw is not None:
            as_was = (aw == 1)
        rows.append((rnd, name, r.get('exit'), m.group(1) if m else '',
                     as_was, info.get('after', '')))
    for rnd in ['round1'] + later:
        sel = [x for x in rows if x[0] == rnd]
        if not sel:
            continue
        print('\n**%s** (%d changes; caught by the check as it stood: %d; '
              'caught now: %d)\n' % (
                  rnd, len(sel), sum(1 for x in sel if x[4]),
                  sum(1 for x in sel if x[2] == 1)))
        print('| seeded change | check | fires now with rule | as it '
              'stood | what was added |')
        print('|---|---|---|---|---|')
        for rnd_, name, ex, rule, as_was, after in sel:
            print('| `%s` | %s | %s | %s | %s |' % (
                name, name.split('-')[0],
                ('`%s`' % rule) if ex == 1 else 'exit %s' % ex,
                'caught' if as_was else 'missed', after or ''))
    res = json.load(open(os.path.join(VERIF, 'mutants', 'RESULTS.json')))
    print('\n**own mutants** (%d; caught: %d)\n' % (
        len(res), sum(1 for v in res.values() if v['exit'] == 1)))
    print('| mutant | check | fires with rule |')
    print('|---|---|---|')
    for k, v in sorted(res.items()):
        desc = ''
        for ln in open(os.path.join(VERIF, 'mutants', k)):
            if ln.startswith('# ') and not ln.startswith('#!'):
                desc = ln[2:].strip()
                break
        print('| `%s` %s | %s | %s |' % (
            k.rsplit('.', 1)[0], ('- ' + desc) if desc else '', v['check'],
            ('`%s`' % v['first_rule']) if v['exit'] == 1
            else 'exit %s' % v['exit']))


if __name__ == '__main__':
    main()
