"""Check driver: generate cases, run them in parallel worker processes,
classify violations against known_findings.txt, write evidence.

Each check module (checks/cNN.py) provides

  LEVEL      'exploration' | 'fault_enumeration'
  RULE       text: how cases are generated, what makes one non-trivial
  cases(tier, seed) -> iterable of JSON-able case dicts
  run_case(case)    -> result dict (executed in a worker process):
       viol:        [ {rule, mech, detail} ]      violations observed
       sig:         hashable/JSON signature if the case was non-trivial
                    (or list of signatures), else None
       evals:       int, number of oracle evaluations in this case
       counters:    {name: int}  per-rule evaluation counters
       sample:      optional JSON describing the case (for the evidence)
       inconclusive: optional reason
  FLOORS     {counter: minimum}  -> below it the run is inconclusive
  optional: batch_size(tier), summarize(results, cov), ASSUMPTIONS,
            EXHAUSTIVE(tier)
"""
import argparse
import hashlib
import importlib
import json
import os
import subprocess
import sys
import time

HARNESS = os.path.dirname(os.path.abspath(__file__))
VERIF = os.path.dirname(HARNESS)
sys.path.insert(0, HARNESS)
sys.path.insert(0, os.path.join(HARNESS, 'site'))

import runcase  # noqa: E402

NCPU = int(os.environ.get('VERIF_JOBS') or os.cpu_count() or 4)


def load_known():
    known = {}
    path = os.path.join(VERIF, 'known_findings.txt')
    if not os.path.exists(path):
        return known
    for line in open(path):
        line = line.strip()
        if not line.startswith('known:'):
            continue
        fields = line[len('known:'):].split(None, 2)
        prop = mech = None
        for f in fields[:2]:
            if f.startswith('property='):
                prop = f[9:]
            elif f.startswith('mech='):
                mech = f[5:]
        if prop and mech:
            known[(prop, mech)] = fields[2] if len(fields) > 2 else ''
    return known


def _worker_cmd(prop, batch_path, out_path):
    return [runcase.VENV_PY, os.path.join(HARNESS, 'worker.py'),
            prop, batch_path, out_path]


def run_parallel(prop, cases, batch_size, batch_timeout, jobs=None,
                 progress=True):
    """Run cases in worker processes.  Returns list of results in case
    order (missing => {'died': True})."""
    import vworld
    jobs = jobs or NCPU
    tmp = vworld.scratch_dir('run-%s-' % prop)
    results = {}
    pending = []   # (batch_id, [indices])
    idxs = list(range(len(cases)))
    for i in range(0, len(idxs), batch_size):
        pending.append(idxs[i:i + batch_size])
    running = []   # (proc, indices, out_path, t0, batch_path)
    bid = 0
    done_cases = 0
    t_last = time.time()
    env = runcase.base_env()
    env['PYTHONPATH'] = os.pathsep.join(
        [os.path.join(HARNESS, 'site'), HARNESS] +
        ([runcase.DEPS] if os.path.isdir(runcase.DEPS) else []))
    try:
        while pending or running:
            while pending and len(running) < jobs:
                ind = pending.pop(0)
                bid += 1
                bpath = os.path.join(tmp, 'b%d.json' % bid)
                opath = os.path.join(tmp, 'o%d.jsonl' % bid)
                with open(bpath, 'w') as f:
                    json.dump([[i, cases[i]] for i in ind], f)
                p = subprocess.Popen(
                    _worker_cmd(prop, bpath, opath), env=env,
                    stdout=subprocess.DEVNULL,
                    stderr=open(os.path.join(tmp, 'e%d.txt' % bid), 'w'),
                    start_new_session=True)
                running.append((p, ind, opath, time.time(), bid))
            time.sleep(0.02)
            still = []
            for (p, ind, opath, t0, b) in running:
                rc = p.poll()
                timed_out = rc is None and \
                    time.time() - t0 > batch_timeout * max(1, len(ind)) ** 0.5
                if rc is None and not timed_out:
                    still.append((p, ind, opath, t0, b))
                    continue
                if timed_out:
                    try:
                        os.killpg(p.pid, 9)
                    except OSError:
                        pass
                    p.wait()
                got = {}
                if os.path.exists(opath):
                    for line in open(opath):
                        try:
                            r = json.loads(line)
                        except ValueError:
                            continue
                        got[r['case']] = r
                for i in ind:
                    if i in got:
                        results[i] = got[i]
                        done_cases += 1
                missing = [i for i in ind if i not in got]
                if missing:
                    err = ''
                    try:
                        err = open(os.path.join(
                            tmp, 'e%d.txt' % b)).read()[-2000:]
                    except OSError:
                        pass
                    if len(ind) == 1:
                        results[ind[0]] = {
                            'case': ind[0], 'died': True,
                            'timed_out': timed_out, 'rc': rc,
                            'stderr': err}
                        done_cases += 1
                    else:
                        # first missing case is the suspect: run it alone,
                        # requeue the rest
                        pending.insert(0, [missing[0]])
                        if missing[1:]:
                            pending.insert(1, missing[1:])
            running = still
            if progress and time.time() - t_last > 30:
                t_last = time.time()
                print('  ... %d/%d cases' % (done_cases, len(cases)),
                      flush=True)
    finally:
        for (p, *_rest) in running:
            try:
                os.killpg(p.pid, 9)
            except OSError:
                pass
        vworld.destroy(tmp)
    return [results.get(i, {'case': i, 'died': True}) for i in range(len(cases))]


def case_hash(case):
    return hashlib.sha1(json.dumps(case, sort_keys=True).encode()
                        ).hexdigest()[:12]


def main(argv=None):
    ap = argparse.ArgumentParser()
    ap.add_argument('prop')
    ap.add_argument('--tier', default=os.environ.get('VERIF_TIER') or 'quick')
    ap.add_argument('--replay')
    ap.add_argument('--seed', type=int,
                    default=int(os.environ.get('VERIF_SEED') or 0))
    ap.add_argument('--limit', type=int)
    ap.add_argument('--no-evidence', action='store_true')
    args = ap.parse_args(argv)
    prop = args.prop.upper()
    mod = importlib.import_module('checks.' + prop.lower())
    if args.replay:
        return replay(prop, mod, args.replay)
    t0 = time.time()
    tier = args.tier if args.tier in ('quick', 'thorough') else 'quick'
    cases = list(mod.cases(tier, args.seed))
    if args.limit:
        cases = cases[:args.limit]
    bs = getattr(mod, 'batch_size', lambda tier: 25)(tier)
    bt = getattr(mod, 'BATCH_TIMEOUT', 300)
    print('%s [%s, seed %d]: %d cases' % (prop, tier, args.seed, len(cases)),
          flush=True)
    results = run_parallel(prop, cases, bs, bt)
    # Cases whose worker died / timed out or that came back inconclusive
    # (watchdog, barrier not reached, calibration mismatch) are most often
    # victims of a loaded machine: run them once more, one case per worker
    # and with a quarter of the parallelism, before they count.  A case
    # that reported a violation is never re-run.
    again = [i for i, r in enumerate(results)
             if (r.get('died') or r.get('inconclusive'))
             and not r.get('viol')]
    if again and len(again) <= max(8, len(cases) // 10):
        print('  re-running %d died/inconclusive case(s) at low parallelism'
              % len(again), flush=True)
        redo = run_parallel(prop, [cases[i] for i in again], 1, bt * 2,
                            jobs=max(2, NCPU // 4), progress=False)
        for i, r in zip(again, redo):
            if not r.get('died'):
                r['case'] = i
                r['retried'] = True
                results[i] = r
    return conclude(prop, mod, tier, args.seed, cases, results, t0,
                    write_evidence=not args.no_evidence)


def conclude(prop, mod, tier, seed, cases, results, t0, write_evidence=True):
    known = load_known()
    counters = {}
    sigs = set()
    evals = 0
    samples = []
    viols = []
    died = []
    inconclusive = []
    extra_distinct = 0
    for i, r in enumerate(results):
        if r.get('died'):
            died.append(i)
            continue
        evals += int(r.get('evals', 1))
        for k, v in (r.get('counters') or {}).items():
            counters[k] = counters.get(k, 0) + v
        s = r.get('sig')
        if s is not None:
            if isinstance(s, dict) and 'multi' in s:
                for x in s['multi']:
                    sigs.add(json.dumps(x, sort_keys=True))
            else:
                sigs.add(json.dumps(s, sort_keys=True))
        extra_distinct += int(r.get('distinct_count', 0))
        if r.get('sample') is not None and len(samples) < 4:
            samples.append(r['sample'])
        if r.get('inconclusive'):
            inconclusive.append((i, r['inconclusive']))
        for v in r.get('viol') or ():
            viols.append((i, v))
    # classify
    known_hits = {}
    new = []
    for i, v in viols:
        key = (prop, v.get('mech') or '')
        if key in known:
            known_hits.setdefault(key, []).append((i, v))
        else:
            new.append((i, v))
    exit_code = 0
    for key, hits in sorted(known_hits.items()):
        print('KNOWN-FINDING: property=%s %s [mech=%s, %d occurrence(s)]'
              % (prop, known[key], key[1], len(hits)))
    if new:
        exit_code = 1
        os.makedirs(os.path.join(VERIF, 'replays', prop), exist_ok=True)
        shown = set()
        for i, v in new:
            h = case_hash(cases[i])
            path = os.path.join(VERIF, 'replays', prop, h + '.json')
            if not os.path.exists(path):
                with open(path, 'w') as f:
                    json.dump({'property': prop, 'case': cases[i],
                               'violation': v}, f, indent=1, default=repr)
            tag = (v.get('rule'), v.get('mech'))
            if tag in shown and len(shown) > 0:
                continue
            shown.add(tag)
            print('VIOLATION property=%s replay=%s' % (prop, path))
            print('   rule=%s mech=%s detail=%s' % (
                v.get('rule'), v.get('mech'),
                json.dumps(v.get('detail'), default=repr)[:600]))
        print('   (%d violating observations in %d cases)' % (
            len(new), len({i for i, _ in new})))
    for i in died[:3]:
        print('   worker died / timed out on case %d: %s  %s' % (
            i, json.dumps(cases[i], default=repr)[:300],
            {k: str(v)[-300:] for k, v in results[i].items()
             if k in ('timed_out', 'rc', 'stderr')}))
    herr = [r for r in results if str(r.get('inconclusive', '')).startswith(
        'harness error')]
    if herr:
        print('HARNESS ERROR in %d case(s); first: %s\n%s' % (
            len(herr), herr[0]['inconclusive'], herr[0].get('tb', '')[-1200:]))
    floors = getattr(mod, 'FLOORS', {})
    if callable(floors):
        floors = floors(tier)
    low = {k: (counters.get(k, 0), m) for k, m in floors.items()
           if counters.get(k, 0) < m}
    max_died = max(2, len(cases) // 50)
    if exit_code == 0:
        if low:
            print('INCONCLUSIVE property=%s: deciding rules under their '
                  'floor: %s' % (prop, low))
            exit_code = 2
        elif len(died) > max_died or len(inconclusive) > max_died:
            print('INCONCLUSIVE property=%s: %d worker deaths/timeouts, %d '
                  'inconclusive cases (first: %s)' % (
                      prop, len(died), len(inconclusive),
                      (results[died[0]] if died else inconclusive[0])))
            exit_code = 2
    wall = time.time() - t0
    cov = {
        'evaluations': evals,
        'distinct_nontrivial': len(sigs) + extra_distinct,
        'rule': mod.RULE,
        'samples': samples or [cases[0] if cases else None],
        'cases': len(cases),
        'rule_evaluations': counters,
        'worker_deaths_or_timeouts': len(died),
        'inconclusive_cases': len(inconclusive),
        'retried_cases': sum(1 for r in results if r.get('retried')),
        'known_findings_seen': {k[1]: len(v) for k, v in known_hits.items()},
    }
    ex = getattr(mod, 'EXHAUSTIVE', None)
    if ex is not None:
        cov['exhaustive'] = bool(ex(tier) if callable(ex) else ex)
    summ = getattr(mod, 'summarize', None)
    if summ:
        try:
            cov.update(summ(results, cases) or {})
        except Exception as e:
            cov['summarize_error'] = repr(e)
    ev = {
        'property_id': prop, 'tier': tier, 'seed': seed,
        'level': mod.LEVEL, 'coverage': cov,
        'assumptions': list(getattr(mod, 'ASSUMPTIONS', [])),
        'wall_s': round(wall, 2),
        'violations': len({i for i, _ in new}),
        'verdict': {0: 'held on what was observed', 1: 'violated',
                    2: 'inconclusive'}[exit_code],
    }
    if write_evidence:
        os.makedirs(os.path.join(VERIF, 'evidence'), exist_ok=True)
        with open(os.path.join(VERIF, 'evidence', prop + '.json'), 'w') as f:
            json.dump(ev, f, indent=1, default=repr)
    print('%s: %s  cases=%d evals=%d distinct_nontrivial=%d died=%d '
          'wall=%.1fs' % (prop, ev['verdict'], len(cases), evals, len(sigs) + extra_distinct,
                          len(died), wall))
    interesting = {k: v for k, v in sorted(counters.items())}
    print('   counters: %s' % json.dumps(interesting)[:1500])
    return exit_code


def replay(prop, mod, path):
    data = json.load(open(path))
    case = data['case']
    results = run_parallel(prop, [case], 1, getattr(mod, 'BATCH_TIMEOUT', 300),
                           jobs=1, progress=False)
    r = results[0]
    print(json.dumps(r, indent=1, default=repr)[:6000])
    known = load_known()
    bad = [v for v in r.get('viol') or ()
           if (prop, v.get('mech') or '') not in known]
    if bad:
        print('VIOLATION property=%s replay=%s' % (prop, path))
        return 1
    for v in r.get('viol') or ():
        print('KNOWN-FINDING: property=%s %s' % (
            prop, known[(prop, v.get('mech'))]))
    return 0


if __name__ == '__main__':
    sys.exit(main())
