#!/bin/sh
# usage: seed_take4.sh <prop> <name> <worktree> <base verif worktree>
# intake + evaluation by the check AS IT STOOD in the base worktree; removes the seed worktree
prop="$1"; name="$2"; wt="$3"; base="$4"
here="$(cd "$(dirname "$0")/.." && pwd)"
/venv/bin/python "$here/harness/seed_intake.py" "$prop" "$name" "$wt/_seed" > "/tmp/intake-$name.log" 2>&1
st=$?
tail -1 "/tmp/intake-$name.log"
if [ $st -eq 0 ]; then
  sh "$here/harness/seeded_base.sh" "$base" "$here/seeded/$name" "$prop" 2>&1 | tail -1 | cut -c1-300
  cp "$here/seeded/$name/detection_as_was.json" "$here/seeded/$name/detection.json"
fi
git -C /repo worktree remove --force "$wt" 2>/dev/null
exit $st
