#!/bin/sh
# every check on a handful of cases: catches import / name errors in seconds
# (floors are not met with so few cases: INCONCLUSIVE is expected here)
here="$(cd "$(dirname "$0")/.." && pwd)"; cd "$here"; rc=0
for c in C01 C02 C03 C04 C05 C06 C07 C08 C09 C10 C11 C12 C13 C14 C15 C16 C17 C18 C19 C20; do
  out=$(./check $c --limit ${1:-6} --no-evidence 2>&1); st=$?
  if echo "$out" | grep -qE "Traceback|VIOLATION|worker died|HARNESS ERROR" || [ $st -eq 1 ]; then
    echo "$c: PROBLEM (exit $st)"; echo "$out" | grep -E "Traceback|Error|VIOLATION|rule=|died" | head -5; rc=1
  else echo "$c: ok (exit $st)"; fi
done
exit $rc
