#!/usr/bin/env python3
"""Rewrite the generated tables of DESIGN.md section 9 (between the S9 markers)
from seeded/ and mutants/RESULTS.json."""
import io
import os
import sys
import contextlib

VERIF = os.path.dirname(os.path.dirname(os.path.abspath(__file__)))
sys.path.insert(0, os.path.join(VERIF, 'harness'))
import seed_table  # noqa: E402

buf = io.StringIO()
with contextlib.redirect_stdout(buf):
    seed_table.main()
p = os.path.join(VERIF, 'DESIGN.md')
s = open(p, encoding='utf-8').read()
a = s.index('<!-- S9-BEGIN -->') + len('<!-- S9-BEGIN -->')
b = s.index('<!-- S9-END -->')
s = s[:a] + '\n' + buf.getvalue() + '\n' + s[b:]
open(p, 'w', encoding='utf-8').write(s)
print('section 9 tables rewritten')
