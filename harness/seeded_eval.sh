#!/bin/sh
# usage: seeded_eval.sh <seed-dir> [checks...]   (default: all 20)
# Applies <seed-dir>/patch.diff to a scratch copy of /repo/src and runs the
# quick tier of the given checks against it (ZTR_VERIF_SRC); writes
# <seed-dir>/detection.json.  /repo itself is not touched.
seed="$(cd "$1" && pwd)"; shift
here="$(cd "$(dirname "$0")/.." && pwd)"
checks="$*"
[ -n "$checks" ] || checks="C01 C02 C03 C04 C05 C06 C07 C08 C09 C10 C11 C12 C13 C14 C15 C16 C17 C18 C19 C20"
scratch="$(mktemp -d /tmp/ztr-seed-XXXXXX)"
trap 'rm -rf "$scratch"' EXIT
cp -r /repo/src "$scratch/src"
find "$scratch/src" -name __pycache__ -type d -exec rm -rf {} + 2>/dev/null
(cd "$scratch" && patch -s -p1 < "$seed/patch.diff") || { echo "patch does not apply"; exit 3; }
out="$seed/detection.json"
echo "{" > "$out.tmp"
first=1
for c in $checks; do
  start=$(date +%s)
  log=$(cd "$here" && ZTR_VERIF_SRC="$scratch/src" ./check $c --tier quick --no-evidence 2>&1); st=$?
  end=$(date +%s)
  rule=$(echo "$log" | grep -m1 "rule=" | sed 's/^ *//' | cut -c1-160 | tr '"' "'" | tr -d '\\')
  [ $first -eq 1 ] || echo "," >> "$out.tmp"; first=0
  printf ' "%s": {"exit": %d, "seconds": %d, "first": "%s"}' "$c" "$st" "$((end-start))" "$rule" >> "$out.tmp"
  echo "$c exit=$st $((end-start))s $rule"
done
echo "" >> "$out.tmp"; echo "}" >> "$out.tmp"; mv "$out.tmp" "$out"
