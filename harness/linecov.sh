#!/bin/sh
# usage: linecov.sh [limit-per-check] [checks...]
# Runs the checks with coverage.py active in every process that imports the
# runner (workers and the processes the runner spawns) and prints, per source
# file, the statements no workload reached.  A diagnostic for the workload
# generators ("a monitor says nothing about paths the workload never
# drives"); verdicts of these runs are not used.
here="$(cd "$(dirname "$0")/.." && pwd)"; cd "$here"
limit="${1:-0}"; shift
checks="$*"
lim=""; [ "$limit" = "0" ] || lim="--limit $limit"
[ -n "$checks" ] || checks="C01 C02 C03 C04 C05 C06 C07 C08 C09 C10 C11 C12 C13 C14 C15 C16 C17 C18 C19 C20"
d="$(mktemp -d /tmp/ztrcov-XXXXXX)"
cat > "$d/rc" <<EOR
[run]
parallel = True
data_file = $d/data/.coverage
source = /repo/src/zope/testrunner
omit = */tests/*
sigterm = True
[report]
show_missing = True
EOR
mkdir "$d/data"
for c in $checks; do
  ZTR_COV_RC="$d/rc" ./check $c $lim --no-evidence 2>&1 | grep -E "^$c: " | cut -c1-100
done
cd "$d" && /venv/bin/python -m coverage combine --rcfile="$d/rc" -q >/dev/null 2>&1
/venv/bin/python -m coverage report --rcfile="$d/rc" 2>&1 | tee "$here/linecov.txt" | tail -40
rm -rf "$d"
