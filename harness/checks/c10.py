"""C10 - layer run order: deterministic, unit tests first, bases first, once
each."""
import itertools
import random

LEVEL = 'exploration'
RULE = ('(1) contract evaluation: every labelled DAG on <=3 (quick) / <=4 '
        '(thorough: all 543) nodes as instance layers, and as class layers '
        'where an MRO exists, x every relative naming (all n! assignments of '
        'n ordered names) x optional real UnitTests node (as extra requested '
        'layer and/or as a base) x every non-empty requested subset x every '
        'input permutation of it is pushed through the real '
        'runner.order_by_bases; oracle: duplicate-free permutation of the '
        'input, unit layer first, requested bases before requested derived, '
        'identical result for all input permutations. (2) real runs: one '
        'world re-materialised with permuted module assignment, permuted '
        'layer definition order, shuffled file creation order and '
        'PYTHONHASHSEED in {0..7,random} must print the same "Running <L> '
        'tests:" header sequence, each header once, also for --list-tests '
        'and -j N. Non-trivial = >=3 layers with >=1 base edge; distinct by '
        '(DAG, kinds, naming, subset) resp. (world, variant).')
ASSUMPTIONS = ['layers have distinct qualified names (bare names may repeat across modules)',
               'class-layer DAGs are restricted to those with a consistent '
               'C3 MRO (others cannot be written in Python)']
FLOORS = {'resume_runs': 15, 'dead_child_runs': 10, 'subprocess_layers': 80, 'order_calls': 20000, 'perm_groups': 3000, 'nontrivial_groups': 1000,
          'cli_runs': 100, 'variant_pairs': 80, 'monitor_evals': 20000,
          'runs_with_layer_options_in_arbitrary_order': 30}
BATCH_TIMEOUT = 600


def EXHAUSTIVE(tier):
    return True


def batch_size(tier):
    return 2


def cases(tier, seed):
    rng = random.Random(seed * 3571 + 10)
    out = []
    nmax = 3 if tier == 'quick' else 4
    # part 1: chunks of DAGs
    import gen
    for n in range(1, nmax + 1):
        dags = gen.all_dags(n)
        chunk = 8 if n < 4 else 6
        for i in range(0, len(dags), chunk):
            out.append({'part': 'enum', 'n': n, 'dags': dags[i:i + chunk],
                        'seed': rng.randrange(1 << 30)})
    if tier == 'quick':
        dags4 = gen.all_dags(4)
        sample = rng.sample(dags4, 48)
        for i in range(0, len(sample), 6):
            out.append({'part': 'enum', 'n': 4, 'dags': sample[i:i + 6],
                        'seed': rng.randrange(1 << 30), 'namings': 6})
    # the 5-node family "three bases, two of them sharing a base, one
    # unrelated root": every order of the three bases x every naming
    fam = [(bo, nm) for bo in itertools.permutations(range(3))
           for nm in itertools.permutations(range(5))]
    if tier == 'quick':
        fam = rng.sample(fam, 96)
    for i in range(0, len(fam), 24):
        out.append({'part': 'family', 'items': fam[i:i + 24],
                    'seed': rng.randrange(1 << 30)})
    # random bigger DAGs
    for i in range(16 if tier == 'quick' else 200):
        out.append({'part': 'random', 'seed': rng.randrange(1 << 30)})
    # part 2: real runs
    for i in range(40 if tier == 'quick' else 500):
        out.append({'part': 'runs', 'idx': i, 'seed': rng.randrange(1 << 30),
                    'variants': 4 if tier == 'quick' else 6})
    return out


NAMES = ['Aa', 'Bb', 'Cc', 'Dd', 'Ee', 'Ff', 'Gg', 'Hh']


def _modname(name):
    # a name is either 'Aa' (module c10mod) or ('c10m2', 'Aa'): layers in
    # different modules may share their bare name, only the qualified names
    # are distinct
    if isinstance(name, (tuple, list)):
        return name[0], name[1]
    return 'c10mod', name


class Inst:
    def __init__(self, name, bases):
        self.__module__, self.__name__ = _modname(name)
        self.__bases__ = tuple(bases)

    def __repr__(self):
        return '<L %s>' % self.__name__


def build_layers(n, edges, names, kind, unit_bases=(), unit=None):
    """kind: 'inst' | 'class'.  Returns list of layer objects or None."""
    import gen
    order = gen.topo_order(n, edges)
    objs = {}
    for i in order:
        bases = [objs[j] for (a, j) in edges if a == i]
        if i in unit_bases:
            bases.append(unit)
        if kind == 'inst':
            objs[i] = Inst(names[i], bases)
        else:
            # most derived first keeps more MROs consistent
            pos = {x: k for k, x in enumerate(order)}
            bl = sorted([j for (a, j) in edges if a == i],
                        key=lambda b: -pos[b])
            bases = [objs[j] for j in bl]
            if i in unit_bases:
                bases.append(unit)
            try:
                mod, nm = _modname(names[i])
                objs[i] = type(nm, tuple(bases) or (object,),
                               {'__module__': mod})
            except TypeError:
                return None
    return [objs[i] for i in range(n)]


def closure_of(layer):
    out = []
    stack = [layer]
    while stack:
        x = stack.pop()
        if x is object or any(x is y for y in out):
            continue
        out.append(x)
        stack.extend(getattr(x, '__bases__', ()))
    return out


def judge_order(result, requested, unit, V, ctx):
    ids = [id(x) for x in result]
    if len(set(ids)) != len(ids):
        V('duplicate-in-order', 'order-duplicate', **ctx)
    if set(ids) != {id(x) for x in requested}:
        V('not-a-permutation', 'order-not-permutation', **ctx)
    if any(x is unit for x in result) and result[0] is not unit:
        V('unit-layer-not-first', 'order-unit-not-first', **ctx)
    pos = {id(x): i for i, x in enumerate(result)}
    for d in result:
        for b in closure_of(d)[1:]:
            if id(b) in pos and pos[id(b)] > pos[id(d)]:
                V('base-after-derived', 'order-base-after-derived',
                  base=b.__name__, derived=d.__name__, **ctx)


def run_enum(case):
    import ztr_monitor
    from zope.testrunner import runner
    from zope.testrunner.layer import UnitTests
    rng = random.Random(case['seed'])
    n = case['n']
    viol = []
    counters = {'order_calls': 0, 'perm_groups': 0, 'nontrivial_groups': 0}
    sigs = 0
    ev0 = ztr_monitor.COUNTERS.get('eval.order_by_bases', 0)

    def V(rule, mech, **d):
        if len(viol) < 6:
            viol.append({'rule': rule, 'mech': mech, 'detail': d})

    namings = list(itertools.permutations(NAMES[:n]))
    if case.get('namings'):
        namings = rng.sample(namings, min(len(namings), case['namings']))
    # same bare name in n different modules (every assignment of the module
    # names), and a mixed naming with one shared bare name
    shared = [[('c10m%d' % p[i], 'Aa') for i in range(n)]
              for p in itertools.permutations(range(n))]
    if n >= 4:
        shared = rng.sample(shared, 6)
    mixed = []
    if n >= 2:
        for p in itertools.permutations(range(n)):
            mixed.append([('c10m%d' % p[i], 'Aa') if i < 2 else NAMES[p[i]]
                          for i in range(n)])
        mixed = rng.sample(mixed, min(len(mixed), 4))
    counters['shared_name_namings'] = len(shared) + len(mixed)
    namings = [list(x) for x in namings] + shared + mixed
    for edges in case['dags']:
        edges = [tuple(e) for e in edges]
        for kind in ('inst', 'class'):
            for names in namings:
                for uvar in (0, 1, 2):
                    # 0: no unit layer; 1: unit requested as extra layer;
                    # 2: unit is a base of some root nodes and requested
                    if uvar and rng.random() < 0.5 and n > 2:
                        continue
                    unit_bases = ()
                    if uvar == 2:
                        roots = [i for i in range(n)
                                 if not any(a == i for (a, j) in edges)]
                        unit_bases = tuple(rng.sample(
                            roots, rng.randint(1, len(roots))))
                    layers = build_layers(n, edges, names, kind, unit_bases,
                                          UnitTests)
                    if layers is None:
                        continue
                    pool = layers + ([UnitTests] if uvar else [])
                    for k in range(1, len(pool) + 1):
                        for sub in itertools.combinations(pool, k):
                            first = None
                            counters['perm_groups'] += 1
                            nt = len(sub) >= 3 and any(
                                b is not s and any(b is x for x in sub)
                                for s in sub for b in closure_of(s))
                            if nt:
                                counters['nontrivial_groups'] += 1
                                sigs += 1
                            perms = itertools.permutations(sub)
                            if len(sub) >= 5:
                                perms = [rng.sample(sub, len(sub))
                                         for _ in range(12)]
                            for perm in perms:
                                res = runner.order_by_bases(list(perm))
                                counters['order_calls'] += 1
                                ctx = {'edges': edges, 'kind': kind,
                                       'names': names, 'unit': uvar,
                                       'input': [x.__name__ for x in perm],
                                       'result': [x.__name__ for x in res]}
                                judge_order(res, perm, UnitTests, V, ctx)
                                key = [id(x) for x in res]
                                if first is None:
                                    first = (key, ctx)
                                elif key != first[0]:
                                    V('order-depends-on-input-order',
                                      'order-input-dependent',
                                      other=first[1]['result'],
                                      other_input=first[1]['input'], **ctx)
    counters['monitor_evals'] = \
        ztr_monitor.COUNTERS.get('eval.order_by_bases', 0) - ev0
    for c, d in ztr_monitor.VIOLATIONS:
        V('contract:' + c, 'contract-' + c, **d)
    del ztr_monitor.VIOLATIONS[:]
    return {'viol': viol, 'evals': counters['order_calls'],
            'distinct_count': sigs, 'counters': counters,
            'sample': {'n': n, 'dags': case['dags'][:2]}}


def run_random(case):
    import gen
    import ztr_monitor
    from zope.testrunner import runner
    from zope.testrunner.layer import UnitTests
    rng = random.Random(case['seed'])
    viol = []
    counters = {'order_calls': 0, 'perm_groups': 0, 'nontrivial_groups': 0}

    def V(rule, mech, **d):
        if len(viol) < 6:
            viol.append({'rule': rule, 'mech': mech, 'detail': d})
    sigs = 0
    ev0 = ztr_monitor.COUNTERS.get('eval.order_by_bases', 0)
    for _ in range(60):
        n = rng.randint(5, 8)
        edges = [(i, j) for i in range(n) for j in range(i)
                 if rng.random() < 0.3]
        names = rng.sample(NAMES, n)
        if rng.random() < 0.5:
            # bare names repeat across modules
            names = [('c10m%d' % rng.randrange(3), rng.choice(NAMES[:3]))
                     for _ in range(n)]
            while len({tuple(x) for x in names}) < n:
                names = [('c10m%d' % rng.randrange(4), rng.choice(NAMES[:3]))
                         for _ in range(n)]
        layers = build_layers(n, edges, names, 'inst', (), UnitTests)
        pool = layers + ([UnitTests] if rng.random() < 0.5 else [])
        for _s in range(6):
            sub = rng.sample(pool, rng.randint(2, len(pool)))
            first = None
            counters['perm_groups'] += 1
            counters['nontrivial_groups'] += 1
            sigs += 1
            for _p in range(10):
                perm = rng.sample(sub, len(sub))
                res = runner.order_by_bases(list(perm))
                counters['order_calls'] += 1
                ctx = {'edges': edges, 'names': names,
                       'input': [x.__name__ for x in perm],
                       'result': [x.__name__ for x in res]}
                judge_order(res, perm, UnitTests, V, ctx)
                key = [id(x) for x in res]
                if first is None:
                    first = (key, ctx)
                elif key != first[0]:
                    V('order-depends-on-input-order', 'order-input-dependent',
                      other=first[1]['result'], **ctx)
    counters['monitor_evals'] = \
        ztr_monitor.COUNTERS.get('eval.order_by_bases', 0) - ev0
    for c, d in ztr_monitor.VIOLATIONS:
        V('contract:' + c, 'contract-' + c, **d)
    del ztr_monitor.VIOLATIONS[:]
    return {'viol': viol, 'evals': counters['order_calls'],
            'distinct_count': sigs, 'counters': counters}


def topo_variant(rng, layers):
    """Another topological order of the layer spec list."""
    left = list(layers)
    out = []
    done = set()
    while left:
        ready = [ls for ls in left if set(ls['bases']) <= done]
        ls = rng.choice(ready)
        left.remove(ls)
        out.append(ls)
        done.add(ls['name'])
    return out


def run_runs(case):
    import common
    import gen
    import oracles
    import runcase
    import vworld
    rng = random.Random(case['seed'])
    prefix = 'vwo%d' % case['idx']
    # (a third of these worlds have instance layers with names that are no
    # identifiers: the layer names travel to the subprocesses and back)
    layers = gen.random_layer_graph(rng, nmax=6, nmin=3, p_edge=0.4,
                                    p_hook=0.5, p_exotic=0.35)
    owners = [ls['name'] for ls in layers if rng.random() < 0.75]
    if len(owners) < 2:
        owners = [ls['name'] for ls in layers][:3]
    if rng.random() < 0.5:
        owners.append(None)
    viol = []
    counters = {'cli_runs': 0, 'variant_pairs': 0, 'list_runs': 0}

    def V(rule, mech, **d):
        if len(viol) < 6:
            viol.append({'rule': rule, 'mech': mech, 'detail': d})

    model_spec = None
    ref = None
    for v in range(case['variants']):
        own = list(owners)
        rng.shuffle(own)
        tbl = {}
        for k in own:
            tbl[k] = [{'name': 'test_%d' % i, 'kind': 'pass'}
                      for i in range(rng.randint(1, 2))]
        spec = gen.simple_world(prefix, topo_variant(rng, layers), tbl)
        model_spec = spec
        model = oracles.LayerModel(spec)
        root = vworld.scratch_dir()
        vworld.materialise(spec, root, order=rng)
        try:
            hs = rng.choice([0, 1, 2, 3, 4, 5, 6, 7,
                             rng.randrange(1, 4000000)])
            mode = rng.choice(['cli', 'cli', 'list', 'par', 'resume'])
            opts = {}
            extra = []
            plan = None
            if mode == 'resume':
                # no layer can be torn down: after the first one the rest
                # runs in subprocesses, one at a time - their start order
                # is the run order
                plan = {'layers': {ls['name']: {'tearDown': 'nie'}
                                   for ls in layers}}
                counters['resume_runs'] = counters.get('resume_runs', 0) + 1
            if mode == 'cli' and rng.random() < 0.3:
                # a layer that can neither be set up nor be torn down: it
                # is run (and fails) once, in its place
                ln = rng.choice([ls['name'] for ls in layers])
                plan = {'layers': {ln: {
                    'setUp': 'raise:' + rng.choice(['ValueError', 'OSError']),
                    'tearDown': 'nie'}}}
                counters['runs_with_a_layer_that_fails_both_ways'] = \
                    counters.get('runs_with_a_layer_that_fails_both_ways',
                                 0) + 1
            if mode == 'list':
                extra = ['--list-tests']
            if mode == 'par':
                opts['processes'] = rng.randint(2, 4)
            if rng.random() < 0.4:
                # the same set of layers asked for by name: one exact
                # --layer pattern per layer, in an arbitrary order (the
                # order of the options is no input of the run order)
                pats = ['UnitTests$' if k is None else
                        vworld.layer_pattern(spec, k) for k in owners]
                rng.shuffle(pats)
                opts['layer'] = pats
                counters['runs_with_layer_options_in_arbitrary_order'] = \
                    counters.get(
                        'runs_with_layer_options_in_arbitrary_order', 0) + 1
            crashed = None
            if mode in ('par', 'resume') and rng.random() < 0.4:
                # one of the layer subprocesses dies in the middle of a
                # test: the layer has been run all the same - once
                tids = [t[0] for t in vworld.iter_tests(spec)]
                crashed = rng.choice(tids)
                plan = dict(plan or {})
                plan['crash'] = {'at': 'test.body:' + crashed,
                                 'how': rng.choice(['exit3', 'SIGKILL',
                                                    'exit0', 'SIGSEGV'])}
            w = common.run_world(spec, plan, opts, extra_argv=extra,
                                 mode='cli', root=root,
                                 env_extra={'PYTHONHASHSEED': hs})
            counters['cli_runs'] += 1
            if w.rc not in (0, 1) or w.timed_out:
                V('run-aborted', 'run-raised', rc=w.rc, out=w.out[-500:],
                  err=w.err[-800:])
                continue
            if mode == 'list':
                counters['list_runs'] += 1
                hdr = [l for l, _ in runcase.parse_listing(w.out)]
            else:
                hdr = [l['name'] for l in w.info['layers']]
            viol.extend(w.cviol[:2])
            ctx = {'mode': mode, 'hashseed': hs, 'headers': hdr,
                   'layers': [(ls['name'], ls['bases']) for ls in layers]}
            if len(set(hdr)) != len(hdr):
                V('layer-run-more-than-once', 'order-layer-twice', **ctx)
            # ... and, whatever becomes of them, one subprocess per layer
            # that is run in a subprocess, one process per layer set-up
            spawned = [e.get('layer') for e in w.events if e['k'] == 'spawn']
            if spawned:
                counters['subprocess_layers'] = counters.get(
                    'subprocess_layers', 0) + len(set(spawned))
            if crashed and any(e['k'] == 'crash' for e in w.events):
                counters['dead_child_runs'] = counters.get(
                    'dead_child_runs', 0) + 1
            for ln in sorted(set(spawned), key=str):
                if spawned.count(ln) != 1:
                    V('layer-run-more-than-once', 'order-layer-spawned-twice',
                      layer=ln, spawned=spawned, crashed_in=crashed, **ctx)
            # ... and a layer that is handed to a subprocess has not been
            # begun by the process that hands it over (no set-up attempt of
            # its own there: layers with tests come before the layers
            # derived from them)
            for e in w.events:
                if e['k'] != 'spawn' or not e.get('layer'):
                    continue
                short = model.short(e['layer'])
                begun = [x for x in w.events
                         if x['k'] == 'layer.setUp.enter' and
                         x.get('layer') == short and x['pid'] == e['pid']
                         and x['seq'] < e['seq']]
                counters['handovers_checked'] = counters.get(
                    'handovers_checked', 0) + 1
                if begun:
                    V('layer-run-more-than-once',
                      'order-layer-begun-then-handed-over', layer=short,
                      **ctx)
            want = {vworld.full_layer_name(spec, k) for k in owners}
            if set(hdr) != want:
                V('layers-run-differ', 'order-layer-set', want=sorted(want),
                  **ctx)
            if vworld.UNIT in hdr and hdr[0] != vworld.UNIT:
                V('unit-layer-not-first', 'order-unit-not-first', **ctx)
            pos = {model.short(h): i for i, h in enumerate(hdr)}
            for h in pos:
                for b in model.closure(h) - {h}:
                    if b in pos and pos[b] > pos[h]:
                        V('base-after-derived', 'order-base-after-derived',
                          base=b, derived=h, **ctx)
            if ref is None:
                ref = (hdr, ctx)
            else:
                counters['variant_pairs'] += 1
                if hdr != ref[0]:
                    V('order-differs-between-variants',
                      'order-variant-dependent', other=ref[1], **ctx)
        finally:
            vworld.destroy(root)
    has_edge = any(ls['bases'] for ls in layers)
    sig = None
    if len(owners) >= 3 and has_edge:
        sig = [[(ls['name'], ls['kind'], ls['bases']) for ls in layers],
               sorted(map(str, owners))]
    return {'viol': viol, 'evals': case['variants'], 'sig': sig,
            'counters': counters,
            'sample': {'layers': [(ls['name'], ls['kind'], ls['bases'])
                                  for ls in layers],
                       'owners': [str(o) for o in owners],
                       'order': ref and ref[0]}}


def run_family(case):
    import ztr_monitor
    from zope.testrunner import runner
    from zope.testrunner.layer import UnitTests
    rng = random.Random(case['seed'])
    viol = []
    counters = {'order_calls': 0, 'perm_groups': 0, 'nontrivial_groups': 0,
                'family_graphs': 0}

    def V(rule, mech, **d):
        if len(viol) < 6:
            viol.append({'rule': rule, 'mech': mech, 'detail': d})
    ev0 = ztr_monitor.COUNTERS.get('eval.order_by_bases', 0)
    sigs = 0
    for bo, nm in case['items']:
        names = [NAMES[i] for i in nm]          # base, left, right, aux, top
        for kind in ('inst', 'class'):
            mk = (lambda n, b: Inst(n, b)) if kind == 'inst' else \
                (lambda n, b: type(n, tuple(b) or (object,),
                                   {'__module__': 'c10mod'}))
            base = mk(names[0], [])
            aux = mk(names[3], [])
            left = mk(names[1], [base])
            right = mk(names[2], [base])
            three = [left, right, aux]
            top = mk(names[4], [three[i] for i in bo])
            pool = [base, left, right, aux, top]
            counters['family_graphs'] += 1
            for k in range(2, 6):
                for sub in itertools.combinations(pool, k):
                    counters['perm_groups'] += 1
                    counters['nontrivial_groups'] += 1
                    sigs += 1
                    first = None
                    for _p in range(6):
                        perm = rng.sample(sub, len(sub))
                        res = runner.order_by_bases(list(perm))
                        counters['order_calls'] += 1
                        ctx = {'family': 'diamond+root', 'kind': kind,
                               'names': names, 'base_order': list(bo),
                               'input': [x.__name__ for x in perm],
                               'result': [x.__name__ for x in res]}
                        judge_order(res, perm, UnitTests, V, ctx)
                        key = [id(x) for x in res]
                        if first is None:
                            first = (key, ctx)
                        elif key != first[0]:
                            V('order-depends-on-input-order',
                              'order-input-dependent',
                              other=first[1]['result'], **ctx)
    counters['monitor_evals'] = \
        ztr_monitor.COUNTERS.get('eval.order_by_bases', 0) - ev0
    for c, d in ztr_monitor.VIOLATIONS:
        V('contract:' + c, 'contract-' + c, **d)
    del ztr_monitor.VIOLATIONS[:]
    return {'viol': viol, 'evals': counters['order_calls'],
            'distinct_count': sigs, 'counters': counters,
            'sample': {'family': 'diamond+root',
                       'first': [list(case['items'][0][0]),
                                 list(case['items'][0][1])]}}


def run_case(case):
    if case['part'] == 'family':
        return run_family(case)
    if case['part'] == 'enum':
        return run_enum(case)
    if case['part'] == 'random':
        return run_random(case)
    return run_runs(case)
