"""C12 - reported counts and failure lists equal what actually happened."""
import random

LEVEL = 'exploration'
RULE = ('worlds of 1-3 layers (+unit) x 1-4 tests with random outcome kinds '
        '(11 bad kinds incl. two-event kinds, k failing sub-tests, unexpected '
        'success; pass / 3 skip flavours / expected failure), optional layer '
        'setUp/tearDown failures and import-failing modules; -v0..3, --repeat '
        '1-2; each world is run sequentially, and (sampled) with '
        'NotImplementedError tear-downs (resumed children) and with -j N. '
        'Ground truth: which tests/hooks ran from trace facts; events per '
        'test calibrated against plain unittest on this interpreter. Oracle: '
        'every "Ran" line, the Total line and the two name lists (multisets) '
        'equal the ground truth; totals agree between modes; a layer '
        'subprocess that dies in the middle of a test (sampled: exit / '
        'SIGKILL / SIGSEGV, any of the layers) is counted and listed as one '
        'error, once, and the other layers still add up. Non-trivial = '
        '>=2 layers ran and >=1 non-pass outcome; distinct by (world shape, '
        'plan, options, mode).')
ASSUMPTIONS = ['unittest semantics of the running interpreter (calibrated)',
               'leniencies listed in DESIGN.md 2/C12 (import failures inside '
               'per-layer errors; per-iteration vs all-iteration totals with '
               '--repeat; decorator-skipped test counted or not in tests)']
FLOORS = {'child_stderr_chatter_tests': 50, 'ran_lines_checked': 600, 'totals_checked': 150,
          'name_lists_checked': 100, 'mode_pairs': 40, 'multi_event_tests': 50,
          'layer_failure_cases': 20, 'import_failure_cases': 10,
          'crashed_child_cases': 6}
BATCH_TIMEOUT = 400


def batch_size(tier):
    return 6


def cases(tier, seed):
    rng = random.Random(seed * 8191 + 12)
    n = 450 if tier == 'quick' else 8000
    return [{'idx': i, 'wseed': rng.randrange(1 << 30)} for i in range(n)]


def judge(w, spec, plan, opts, mode, V, C, truth_mod):
    """Compare one run's printed numbers with the facts."""
    import vworld
    T = truth_mod.compute(w.events, spec, plan, opts)
    model = T.model
    rep = opts.get('repeat') or 1
    stop = bool(opts.get('stop'))
    nofact_all = 0
    want = vworld.expected_tests(spec, opts)
    for L in set(T.units.values()):
        # layers of classes that are run as a unit
        want.setdefault(vworld.full_layer_name(
            spec, None if L == 'UNIT' else L), [])
    nimp = len(T.import_failures)
    info = w.info
    blocks = {}
    for blk in info['layers']:
        blocks.setdefault(blk['name'], []).append(blk)
    sumF = sumE = sumS = sumT = sumT_alt = 0
    sumF_it = sumE_it = sumS_it = 0
    any_ran = 0
    for lname, tids in want.items():
        short = model.short(lname)
        blks = blocks.get(lname, [])
        ran_lines = [r for b in blks for r in b['ran']]
        d = T.layers.get(short, {'started': {}, 'F': [], 'E': [], 'S': 0,
                                 'U': [], 'X': 0})
        layer_ran = bool(ran_lines)
        nofact = [t for t in tids if T.tests[t][0]['kind'] == 'skip_deco']
        n_started = sum(d['started'].values())
        if not layer_ran:
            if n_started:
                V('tests-ran-but-no-summary-line', 'counts-summary-missing',
                  layer=lname, mode=mode)
            continue
        any_ran += 1
        if len(ran_lines) != rep:
            V('wrong-number-of-summary-lines', 'counts-summary-lines',
              layer=lname, got=len(ran_lines), want=rep, mode=mode)
            continue
        if n_started % rep:
            V('uneven-iterations', 'counts-iterations', layer=lname,
              started=d['started'], mode=mode)
            continue
        its = d.get('iters') or []
        for itn, (t, f, e, s) in enumerate(ran_lines):
            # the n-th summary line of a layer belongs to iteration n
            if itn < len(its):
                it_tests = its[itn]['tests']
                it_F = its[itn]['F']
                it_E = its[itn]['E']
                it_S = its[itn]['S'] + len(nofact)
            else:
                it_tests = it_F = it_E = 0
                it_S = len(nofact)
            if len({(x['F'], x['E'], x['S']) for x in its}) > 1:
                C('iteration_dependent_summaries')
            C('ran_lines_checked')
            ok = (t in (it_tests, it_tests + len(nofact)) and f == it_F and
                  e in (it_E, it_E + nimp) and s == it_S)
            if stop:
                # with -x the tests behind the stop point are not reached:
                # any number of the decorator-skipped tests (which leave no
                # fact) may have been seen
                base_S = it_S - len(nofact)
                ok = (it_tests <= t <= it_tests + len(nofact) and
                      f == it_F and e in (it_E, it_E + nimp) and
                      base_S <= s <= it_S)
            if not ok:
                mech = 'counts-layer-summary'
                if (t, f, e) == (it_tests + len(nofact), it_F, it_E) or \
                        (t, f, e) == (it_tests, it_F, it_E):
                    mech = 'counts-layer-skipped'
                V('layer-summary-differs-from-facts', mech, layer=lname,
                  printed={'tests': t, 'failures': f, 'errors': e,
                           'skipped': s},
                  facts={'tests': it_tests, 'nofact_skips': len(nofact),
                         'failures': it_F, 'errors': it_E, 'skipped': it_S,
                         'import_failures': nimp}, mode=mode)
        # totals: the tests of one iteration / of the last iteration; the
        # failure, error and skip events of all iterations (or of one, when
        # every iteration is alike - leniency of DESIGN 2/C12)
        nofact_all += len(nofact)
        alike = len({(x['tests'], x['F'], x['E'], x['S']) for x in its}) <= 1
        last = its[-1] if its else {'tests': 0, 'F': 0, 'E': 0, 'S': 0}
        sumT += last['tests']
        sumT_alt += last['tests'] + len(nofact)
        sumF += len(d['F']) + len(d['U'])
        sumE += len(d['E'])
        sumS += d['S'] + len(nofact) * rep
        sumF_it += last['F'] if alike else len(d['F']) + len(d['U'])
        sumE_it += last['E'] if alike else len(d['E'])
        sumS_it += (last['S'] + len(nofact)) if alike else \
            d['S'] + len(nofact) * rep
    nlf = len(T.layer_failures)
    if info['total'] is not None:
        C('totals_checked')
        t, f, e, s = info['total']
        okT = t in (sumT, sumT_alt, sumT * rep, sumT_alt * rep)
        okF = f in (sumF, sumF_it)
        okE = e in (sumE + nlf + nimp, sumE_it + nlf + nimp)
        okS = s in (sumS, sumS_it)
        if stop:
            okT = sumT <= t <= sumT_alt
            okS = sumS - nofact_all <= s <= sumS
        if not (okT and okF and okE and okS):
            mech = 'counts-total'
            if okT and okF and okE and not okS:
                mech = 'counts-total-skipped-' + mode
            V('totals-differ-from-facts', mech,
              printed={'tests': t, 'failures': f, 'errors': e, 'skipped': s},
              facts={'tests': sumT, 'tests_with_deco_skips': sumT_alt,
                     'failures': sumF, 'errors': sumE, 'layer_failures': nlf,
                     'import_failures': nimp, 'skipped': sumS,
                     'repeat': rep}, mode=mode)
    elif any_ran > 1 and mode == 'seq':
        V('totals-line-missing', 'counts-total-missing', layers=any_ran,
          mode=mode)
    if (opts.get('verbose') or 0) >= 1:
        C('name_lists_checked')
        wantF = sorted(n for d in T.layers.values() for n in d['F'] + d['U'])
        wantE = sorted(n for d in T.layers.values() for n in d['E'])
        # (white space is compared squashed: a layer subprocess reports its
        # names on one line each)
        sq = lambda n: ' '.join(n.split())  # noqa
        wantF = sorted(sq(n) for n in wantF)
        wantE = sorted(sq(n) for n in wantE)
        gotF = sorted(sq(n) for n in info['failures_list'] or [])
        gotE_all = [sq(n) for n in info['errors_list'] or []]
        gotE = sorted(n for n in gotE_all if not n.startswith('Layer: '))
        gotL = [n for n in gotE_all if n.startswith('Layer: ')]
        if gotF != wantF:
            V('failure-name-list-differs', 'counts-failure-names',
              got=gotF[:8], want=wantF[:8], mode=mode)
        if gotE != wantE:
            V('error-name-list-differs', 'counts-error-names',
              got=gotE[:8], want=wantE[:8], mode=mode)
        # failed layers: a tearDown failure is listed under the layer whose
        # hook raised; a setUp failure under that layer or under the layer
        # that was being set up (one derived from it) - both readings of
        # "failed layer" are accepted
        left = list(gotL)
        unmatched = []
        for fact in T.layer_failures:
            lfull, hook = fact[len('Layer: '):].rsplit('.', 1)
            short = model.short(lfull)
            cands = [fact]
            if hook == 'setUp':
                cands += ['Layer: %s.setUp' % vworld.full_layer_name(spec, d)
                          for d in sorted(model.derived(short))]
            for c in cands:
                if c in left:
                    left.remove(c)
                    break
            else:
                unmatched.append(fact)
        if left or unmatched:
            V('failed-layer-list-differs', 'counts-layer-names',
              listed=gotL, facts=T.layer_failures, unmatched=unmatched,
              extra=left, mode=mode)
    return T, any_ran


def judge_crash(w, spec, plan, opts, mode, V, C, truth_mod):
    """One layer subprocess died (no report): that layer's own numbers are
    unknown to the parent, everything else must still add up and the dead
    subprocess must be counted and listed as one error, once."""
    import vworld
    T = truth_mod.compute(w.events, spec, plan, opts)
    tid = plan['crash']['at'].split(':', 1)[1]
    Lc = T.tests[tid][1] or 'UNIT'
    full_c = vworld.full_layer_name(spec, None if Lc == 'UNIT' else Lc)
    info = w.info
    nimp = len(T.import_failures)
    sumT = sumTa = sumF = sumE = sumS = nof = 0
    want = vworld.expected_tests(spec, opts)
    for lname, tids in want.items():
        short = T.model.short(lname)
        if short == Lc:
            continue
        d = T.layers.get(short)
        nofact = [t for t in tids if T.tests[t][0]['kind'] == 'skip_deco']
        if d is None:
            if not nofact:
                continue
            d = {'started': {}, 'F': [], 'E': [], 'U': [], 'S': 0}
        its = d.get('iters') or [{'tests': 0}]
        sumT += its[-1]['tests']
        sumTa += its[-1]['tests'] + len(nofact)
        sumF += len(d['F']) + len(d['U'])
        sumE += len(d['E'])
        sumS += d['S'] + len(nofact)
        nof += len(nofact)
    C('crashed_child_cases')
    if info['total'] is None:
        V('totals-line-missing', 'counts-total-missing', mode=mode,
          out=w.out[-600:])
    else:
        t, f, e, sk = info['total']
        C('totals_checked')
        if not (t in (sumT, sumTa) and f == sumF and
                e == sumE + nimp + 1 and sk == sumS):
            V('totals-differ-from-facts', 'counts-total-dead-child',
              printed={'tests': t, 'failures': f, 'errors': e, 'skipped': sk},
              facts={'tests_other_layers': sumT, 'with_deco_skips': sumTa,
                     'failures': sumF, 'errors': sumE, 'dead_children': 1,
                     'import_failures': nimp, 'skipped': sumS},
              dead_layer=full_c, mode=mode)
    if (opts.get('verbose') or 0) >= 1:
        C('name_lists_checked')
        wantF = sorted(n for L, d in T.layers.items() if L != Lc
                       for n in d['F'] + d['U'])
        wantE = sorted([n for L, d in T.layers.items() if L != Lc
                        for n in d['E']] + ['subprocess for ' + full_c])
        sq = lambda n: ' '.join(n.split())  # noqa (white space squashed)
        wantF = sorted(sq(n) for n in wantF)
        wantE = sorted(sq(n) for n in wantE)
        gotF = sorted(sq(n) for n in info['failures_list'] or [])
        gotE = sorted(sq(n) for n in info['errors_list'] or [])
        if gotF != wantF:
            V('failure-name-list-differs', 'counts-failure-names',
              got=gotF[:8], want=wantF[:8], mode=mode)
        if gotE != wantE:
            V('error-name-list-differs', 'counts-error-names-dead-child',
              got=gotE[:8], want=wantE[:8], mode=mode)


def run_case(case):
    import common
    import gen
    import truth
    import vworld
    rng = random.Random(case['wseed'])
    prefix = 'vwk%d' % case['idx']
    bad = truth.calibration_agrees()
    if bad:
        return {'inconclusive': 'calibration disagrees: %r' % (bad,)}
    spec = gen.fault_world(rng, prefix, nlayers=(1, 3), tests=(1, 4),
                           p_bad=0.35, p_import_fault=0.12)
    plan = gen.layer_fault_plan(rng, spec, p_su=0.08, p_td=0.1)
    # names and sub-test messages with characters that str.splitlines()
    # takes for line boundaries although they are no line feeds (vertical
    # tab, form feed, the separators FS/GS/RS, NEL, U+2028, U+2029): one
    # name, one line of the name lists, in every mode
    nhostile = 0
    if rng.random() < 0.2:
        for tid, ts, layer, lvl, m, node in vworld.iter_tests(spec):
            if ts['kind'] not in ('pass', 'skip_deco') and \
                    rng.random() < 0.6:
                sep = rng.choice(['\x0b', '\x0c', '\x1c', '\x1d', '\x1e',
                                  '\x85', '\u2028', '\u2029'])
                if ts['kind'] == 'subtests' and rng.random() < 0.5:
                    ts['submsg'] = 'page one%spage two' % sep
                else:
                    ts['name'] = '%s_a%sb' % (ts['name'], sep)
                nhostile += 1
    ncount = 0
    if rng.random() < 0.2:
        # test case objects that stand for several cases each
        # (countTestCases() > 1): "tests run" counts the cases
        for tid, ts, layer, lvl, m, node in vworld.iter_tests(spec):
            if ts['kind'] != 'skip_deco' and rng.random() < 0.4:
                ts['count'] = rng.choice([2, 3, 5])
                ncount += 1
    opts = {'verbose': rng.randint(0, 3)}
    if rng.random() < 0.25:
        opts['repeat'] = rng.choice([2, 2, 3])
        if rng.random() < 0.5:
            # outcomes that differ between the iterations
            dyn = ['fail', 'error', 'setup_error', 'teardown_error',
                   'body_teardown_error', 'cleanup_error', 'skip_body']
            for tid, ts, layer, lvl, m, node in vworld.iter_tests(spec):
                if ts['kind'] == 'pass' and rng.random() < 0.4:
                    k = rng.choice(dyn)
                    plan.setdefault('tests', {})[tid] = {
                        'kind': 'pass', 'kinds_seq': rng.choice([
                            [k, 'pass'], ['pass', k], ['pass', k, 'pass'],
                            [k, 'pass', rng.choice(dyn)]])}
    if not opts.get('repeat') and rng.random() < 0.25:
        # classes run as a unit: class level errors and skips are result
        # events of no test, they count all the same
        gen.add_unit_nodes(rng, spec, kinds=('pass', 'pass', 'fail', 'error',
                                              'skip_body'))
    viol = []
    counters = {}

    def C(k, n=1):
        counters[k] = counters.get(k, 0) + n

    def V(rule, mech, **d):
        d.update(opts=opts, plan=plan)
        if len(viol) < 8:
            viol.append({'rule': rule, 'mech': mech, 'detail': d})

    root = vworld.materialise(spec)
    sig = None
    try:
        ws = common.run_world(spec, plan, opts, root=root)
        if ws.raised is not None:
            V('run-aborted', 'run-raised', tb=(ws.raised_tb or '')[-700:])
            return {'viol': viol, 'evals': 1, 'counters': counters}
        viol.extend(ws.cviol[:2])
        C('multi_case_test_objects', ncount)
        C('names_with_unicode_line_boundaries', nhostile)
        T, nran = judge(ws, spec, plan, opts, 'seq', V, C, truth)
        multi = sum(1 for tid, (ts, l, m, n) in T.tests.items()
                    if sum(vworld.outcome_events(ts)) > 1)
        C('multi_event_tests', multi)
        if T.layer_failures:
            C('layer_failure_cases')
        if T.import_failures:
            C('import_failure_cases')
        nonpass = any(ts['kind'] != 'pass' for ts, *_ in T.tests.values())
        if nran >= 2 and nonpass:
            sig = [common.shape_of(spec), plan, opts]
        # other modes
        r = rng.random()
        other = None
        if spec['layers'] and r < 0.22:
            plan2 = {'layers': dict(plan.get('layers') or {})}
            for ls in spec['layers']:
                h = dict(plan2['layers'].get(ls['name']) or {})
                if not str(h.get('tearDown', '')).startswith('raise'):
                    h['tearDown'] = 'nie'
                plan2['layers'][ls['name']] = h
            other = ('resume', plan2, opts)
        elif r < 0.4:
            other = ('par', plan, dict(opts, processes=rng.randint(2, 4)))
        if other and other[0] == 'par' and rng.random() < 0.35 and \
                not opts.get('repeat'):
            # --stop-on-error in a parallel run: every subprocess stops for
            # itself, whatever has been executed anywhere is still counted;
            # one layer is slow, so that the layers do not finish together
            import copy
            mode, p2, o2 = other
            o2 = dict(o2, stop=True)
            p2 = copy.deepcopy(p2)
            slow = rng.choice(sorted(T.tests))
            t = p2.setdefault('tests', {}).setdefault(slow, {})
            t['actions'] = list(t.get('actions') or []) + [
                {'ph': 'setUp', 'do': 'sleep', 's': 0.4}]
            other = ('par-stop', p2, o2)
            C('stop_on_error_par_runs')
        crash = None
        if other and other[0] in ('par', 'resume') and len(T.layers) >= 2 \
                and not opts.get('repeat') and not T.units \
                and rng.random() < 0.6:
            # one of the layer subprocesses dies in the middle of a test
            # (no report): it is one error, counted and listed once - also
            # when it is not the last subprocess the parent looks at
            mode, p2, o2 = other
            runnable = sorted(
                t for t, (ts, l, m, n) in T.tests.items()
                if ts['kind'] not in ('skip_deco', 'skip_setup',
                                      'setup_error', 'setup_fail')
                and T.layers.get(l or 'UNIT', {}).get('started', {}).get(t))
            if runnable:
                crash = {'at': 'test.body:' + rng.choice(runnable),
                         'how': rng.choice(['exit3', 'SIGKILL', 'exit0',
                                            'SIGSEGV'])}
                keep_l = {ln: {'tearDown': 'nie'}
                          for ln, h in (p2.get('layers') or {}).items()
                          if h.get('tearDown') == 'nie'}
                p2 = {'tests': dict(plan.get('tests') or {}),
                      'layers': keep_l, 'crash': crash}
                other = (mode + '-crash', p2, o2)
        if other:
            mode, p2, o2 = other
            if rng.random() < 0.6 and not crash:
                # the tests chatter on the real stderr of the subprocess
                # (complete, non-header lines; some after the report)
                p2, nn = gen.benign_child_stderr(rng, p2, sorted(T.tests))
                C('child_stderr_chatter_tests', nn)
            wo = common.run_world(spec, p2, o2, root=root)
            if wo.raised is not None:
                V('run-aborted', 'run-raised', mode=mode,
                  tb=(wo.raised_tb or '')[-700:])
            elif crash and any(e['k'] == 'crash' for e in wo.events):
                judge_crash(wo, spec, p2, o2, mode, V, C, truth)
            else:
                judge(wo, spec, p2, o2, mode, V, C, truth)
                C('mode_pairs')
                a, b = ws.info['total'], wo.info['total']
                Tb = truth.compute(wo.events, spec, p2, o2)
                if a is not None and b is not None and mode == 'par' and \
                        a != b and \
                        sorted(T.layer_failures) == sorted(Tb.layer_failures):
                    mech = 'counts-total-mode-differs'
                    if a[:3] == b[:3]:
                        mech = 'counts-total-skipped-' + mode
                    V('totals-differ-between-modes', mech, seq=a, other=b,
                      mode=mode)
    finally:
        vworld.destroy(root)
    return {'viol': viol, 'evals': 1, 'sig': sig, 'counters': counters,
            'sample': {'opts': opts, 'plan': plan,
                       'kinds': {str(k): [t['kind'] for t in
                                          n['suite']['ch'][0]['tests']]
                                 for k, n in enumerate(spec['modules'])
                                 if n['suite']['ch']},
                       'total_line': ws.info['total']}}
