"""C18 - interpreter-global state changed for a run is restored afterwards."""
import itertools
import random

LEVEL = 'exploration'
RULE = ('all 2^7 subsets of {--gc (1-3 values), -G flag(s), --coverage, '
        '--profile cProfile, --buffer, warnings= argument, -D with scripted '
        'stdin} x 17 endings {a class run as a unit whose class fixture raises or skips as the last / first thing of the layer, a raising feature tear-down (stray empty '
        'profile file), normal, failing tests, exception from a layer '
        'testSetUp hook, exception from a layer testTearDown hook (also '
        'around a test skipped in body/setUp, interrupted, or with several '
        'result events), KeyboardInterrupt in a test body / setUp / '
        'tearDown, -x, --list-tests} = 2176 '
        'cases, exhaustive in both tiers (thorough repeats them with 3 more '
        'parameter seeds). A snapshot of gc thresholds/debug flags, '
        'traceback.format_exception/print_exception, sys.gettrace, '
        'threading.gettrace, sys.settrace identity, sys/threading profile '
        'hooks, sys.monitoring tools, warnings.filters (value), '
        'warnings.showwarning, sys.stdout/sys.stderr is taken before and '
        'after run_internal in the same process; an in-test probe proves '
        'each active option took effect (otherwise the case is vacuous). '
        'Non-trivial = >=1 state-changing option effective and the run ended '
        'abnormally or had failures; distinct by (option subset, ending).')
ASSUMPTIONS = ['-D is driven by a scripted stdin answering "c"',
               'state not named in the property (sys.path, logging handlers, '
               'sys.modules) is not compared']
FLOORS = {'snapshots_compared': 1500, 'effective_option_cases': 1000,
          'aborted_runs': 500, 'kbint_runs': 300, 'option_effect_probes': 1400,
          'warnoptions_cases': 200,
          'application_traceback_functions': 200,
          'application_trace_hook_under_coverage': 40,
          'tests_clearing_the_trace_hook_under_coverage': 15,
          'nested_runs': 150}
BATCH_TIMEOUT = 600

OPTS = ['gc', 'gcopt', 'coverage', 'profile', 'buffer', 'warnings', 'pm']
ENDINGS = ['normal', 'failing', 'testSetUp_raises', 'testTearDown_raises',
           'kbint_body', 'kbint_setUp', 'kbint_tearDown', 'stop',
           # a per-test hook raising around a test that produced no
           # pass/fail event yet (skip, interrupt) or several events
           'skipbody+testTearDown_raises', 'skipsetup+testTearDown_raises',
           'kbint_body+testTearDown_raises', 'multi+testTearDown_raises',
           'subskip+testSetUp_raises',
           # a feature's own tear-down raises after the test phase: a stray
           # empty profile file makes Profiling.global_teardown() fail
           # (EOFError) - everything else must still be put back
           'stray_prof',
           # the last (first) thing that happens in the layer is a class or
           # module level fixture error / skip of a class that is run as a
           # unit: a result event outside startTest / stopTest
           'unit_last', 'unit_first',
           # the run only lists the tests (--list-tests): features are set
           # up and torn down around an empty test phase
           'list_tests']


def EXHAUSTIVE(tier):
    return True


def batch_size(tier):
    return 16


def cases(tier, seed):
    rng = random.Random(seed * 1009 + 18)
    out = []
    rounds = 1 if tier == 'quick' else 4
    idx = 0
    for rnd in range(rounds):
        for mask in range(1 << len(OPTS)):
            subset = [o for i, o in enumerate(OPTS) if mask >> i & 1]
            for ending in ENDINGS:
                idx += 1
                out.append({'idx': idx, 'subset': subset, 'ending': ending,
                            'pseed': rng.randrange(1 << 30)})
    rng.shuffle(out)
    return out


def snapshot():
    import gc
    import sys
    import threading
    import traceback
    import warnings
    s = {
        'gc_threshold': gc.get_threshold(),
        'gc_debug': gc.get_debug(),
        'tb_format': id(traceback.format_exception),
        'tb_print': id(traceback.print_exception),
        'trace': repr(sys.gettrace()),
        'settrace_fn': id(sys.settrace),
        'profile': repr(sys.getprofile()),
        'filters': [repr(f) for f in warnings.filters],
        'showwarning': id(warnings.showwarning),
        'stdout': id(sys.stdout),
        'stderr': id(sys.stderr),
    }
    if hasattr(threading, 'gettrace'):
        s['threading_trace'] = repr(threading.gettrace())
        s['threading_profile'] = repr(threading.getprofile())
    mon = getattr(sys, 'monitoring', None)
    if mon is not None:
        s['monitoring_tools'] = [mon.get_tool(i) for i in range(6)]
    return s


class ScriptedStdin:
    def __init__(self):
        self.reads = 0

    def readline(self):
        self.reads += 1
        return 'c\n'

    def read(self, *a):
        return ''

    def isatty(self):
        return False

    def close(self):
        pass


def run_case(case):
    import gc
    import os
    import sys
    import common
    import gen
    import vworld
    rng = random.Random(case['pseed'])
    subset, ending = case['subset'], case['ending']
    prefix = 'vwg%d' % case['idx']
    layers = [{'name': 'Base', 'kind': 'class', 'bases': [],
               'hooks': {'setUp': 'ok', 'tearDown': 'ok', 'testSetUp': 'ok',
                         'testTearDown': 'ok'}}]
    probe = {'ph': 'body', 'do': 'probe_state'}
    # every run changes the process-wide warnings filters from inside a test
    # (so "the filters are restored" is never vacuous) ...
    wf = {'ph': rng.choice(['setUp', 'body']), 'do': 'warn_filter',
          'msg': 'vw-%d' % case['idx'],
          'simple': rng.choice([None, 'ignore', 'error'])}
    t0 = {'name': 'test_0', 'kind': 'pass', 'actions': [wf, probe]}
    t1 = {'name': 'test_1', 'kind': 'pass',
          'actions': [dict(wf, msg=wf['msg'] + 'b', simple=None)]}
    # ... and a third of the runs without a warnings= argument behave as if
    # the interpreter had been started with -W (sys.warnoptions non-empty:
    # the runner then installs no filter of its own)
    wopt = 'warnings' not in subset and rng.random() < 0.34
    t2 = {'name': 'test_2', 'kind': 'pass', 'actions': []}
    if rng.random() < 0.15:
        # a test that takes the search path off sys.path for good
        t2['actions'].append({'ph': 'body', 'do': 'drop_sys_path'})
        dropped_path = True
    else:
        dropped_path = False
    # the embedding program (a debugger, an outer coverage or profiling
    # tool, an IDE's test view) may have trace / profile functions installed
    # when the run starts ...
    pre_hooks = []
    if rng.random() < 0.3:
        pre_hooks = rng.choice([['trace'], ['profile'], ['trace', 'profile'],
                                ['trace']])
    if 'pm' in subset and 'trace' in pre_hooks:
        # the scripted debugger session answers "c": bdb then clears the
        # trace hook (set_continue without breakpoints) - the debugger
        # user's doing, not a change the runner made for the run
        pre_hooks = [h for h in pre_hooks if h != 'trace']
    # ... and tests use these hooks themselves (trace.Trace.runfunc,
    # bdb.Bdb.runcall, profile.Profile.runcall: install, call, take away)
    used_hooks = None
    if rng.random() < 0.3:
        which = rng.choice([['trace'], ['profile'], ['trace', 'profile'],
                            ['threading_trace'], ['threading_profile'],
                            ['trace', 'threading_trace']])
        # a test that clears a hook with set...(None) clears what the
        # embedding program had installed as well - that would be the
        # test's doing, not the runner's: such tests put back what they found
        how = 'saved' if pre_hooks else rng.choice(['none', 'none', 'saved'])
        used_hooks = {'ph': rng.choice(['setUp', 'body', 'tearDown']),
                      'do': 'use_hooks', 'which': which, 'how': how}
        rng.choice([t0, t1, t2])['actions'].append(used_hooks)
    # a fifth of the runs: one of the tests runs the test runner itself,
    # in-process, with state-changing options of its own; the state it must
    # put back is the outer run's (vworld_rt.nested_run compares around the
    # inner run, common.judge_nested reads the result)
    nested = None
    if rng.random() < 0.2:
        inner = []
        for words in (['--gc', str(rng.choice([0, 300, 777]))],
                      ['--gc', '321', '--gc', '7'],
                      ['-G', rng.choice(['DEBUG_STATS',
                                         'DEBUG_UNCOLLECTABLE'])],
                      ['--coverage', 'COVDIR'], ['--buffer'], ['-v'],
                      ['--profile', 'cProfile']):
            if rng.random() < 0.4:
                if words[0] == '--profile' and 'profile' in subset:
                    continue    # CPython allows one active profiler only
                if words[0] == '--gc' and '--gc' in inner:
                    continue
                inner += words
        nested = {'ph': 'body', 'do': 'nested_run', 'argv': inner,
                  'fail': rng.random() < 0.3}
        rng.choice([t0, t2])['actions'].append(nested)
    plan = {}
    opts = {'verbose': rng.randint(0, 2)}
    if ending in ('failing', 'stop'):
        t1['kind'] = rng.choice(['fail', 'error', 'body_teardown_error',
                                 'uxsuccess', 'subtests'])
        if ending == 'stop':
            opts['stop'] = True
    elif ending == 'testSetUp_raises':
        # raise when test_1 starts: a hook that counts
        layers[0]['hooks']['testSetUp'] = {'beh': 'ok', 'actions': []}
        plan = {'layers': {'Base': {'testSetUp': 'ok'}}}
    elif ending.startswith('kbint'):
        ph = ending.split('+')[0].split('_')[1]
        t1['actions'].append({'ph': ph, 'do': 'raise_base',
                              'exc': 'KeyboardInterrupt'})
    if ending.startswith('skipbody'):
        t1['kind'] = 'skip_body'
    elif ending.startswith('skipsetup'):
        t1['kind'] = 'skip_setup'
    elif ending.startswith('multi'):
        t1['kind'] = rng.choice(['body_teardown_error', 'subtests',
                                 'fail_teardown_error'])
        t1['subs'] = ['F', 'S', 'E']
    elif ending.startswith('subskip'):
        t0['kind'] = 'subtests'
        t0['subs'] = ['S', 'P']
    argv = []
    warn = None
    effects = {}
    scratch = vworld.scratch_dir('c18-')
    if 'gc' in subset:
        vals = [rng.choice([0, 123, 701])] + \
            [rng.choice([5, 11]) for _ in range(rng.randint(0, 2))]
        if vals[0] == 0 and rng.random() < 0.5:
            vals = [0]
        for v in vals:
            argv += ['--gc', str(v)]
        effects['gc'] = vals
    if 'gcopt' in subset:
        flags = rng.sample(['DEBUG_UNCOLLECTABLE', 'DEBUG_STATS'],
                           rng.randint(1, 2))
        for f in flags:
            argv += ['-G', f]
        effects['gcopt'] = flags
    if 'coverage' in subset:
        argv += ['--coverage', os.path.join(scratch, 'cov')]
        effects['coverage'] = True
    if 'profile' in subset:
        argv += ['--profile', 'cProfile', '--profile-directory', scratch]
        effects['profile'] = True
        if ending == 'stray_prof':
            # (written during the run: stale files are removed at set-up)
            t2['actions'].append({
                'ph': 'body', 'do': 'write_file', 'text': '',
                'path': os.path.join(scratch, 'tests_profile.stray.prof')})
    if 'buffer' in subset:
        opts['buffer'] = True
    if 'warnings' in subset:
        warn = rng.choice(['error', 'ignore', 'always', 'default'])
        effects['warnings'] = warn
    if ending == 'list_tests':
        argv += ['--list-tests']
    stdin = None
    if 'pm' in subset:
        argv += ['-D']
        stdin = ScriptedStdin()
    if nested:
        nested['argv'] = [os.path.join(scratch, 'inner-cov')
                          if x == 'COVDIR' else x for x in nested['argv']]
        if '--profile' in nested['argv']:
            nested['argv'] += ['--profile-directory',
                               os.path.join(scratch, 'inner-prof')]
            os.makedirs(os.path.join(scratch, 'inner-prof'), exist_ok=True)
    spec = gen.simple_world(prefix, layers, {'Base': [t0, t1, t2]})
    if ending.startswith('unit_'):
        node = {'t': 'unit', 'name': 'UnitU0', 'layer': 'Base',
                'tests': [{'name': 'test_u0', 'kind': 'pass'}],
                'fixture': dict(rng.choice(gen.UNIT_FIXTURES[:4]))}
        ch = spec['modules'][0]['suite']['ch']
        ch.insert(len(ch) if ending == 'unit_last' else 0, node)
        if ending == 'unit_last' and rng.random() < 0.5:
            # ... and nothing else runs in that layer
            opts['test'] = ['test_u0', 'Class', 'UnitU0']
    # per-test hook that raises on its 2nd call is expressed through a plan
    # variant: the hook raises always, but only for endings that want it
    if ending.endswith('testSetUp_raises'):
        plan = {'layers': {'Base': {'testSetUp': 'nth:2:raise:ValueError'}}}
    elif ending.endswith('testTearDown_raises'):
        plan = {'layers': {'Base': {'testTearDown': 'nth:2:raise:KeyError'}}}
    before = {}
    after = {}
    gc_garbage_before = len(gc.garbage)

    # the interpreter is not always in its default state when the run starts:
    # gc debug flags already on (overlapping the -G flags or not), other
    # collection thresholds
    orig_gc = (gc.get_threshold(), gc.get_debug())
    pre_debug = pre_thr = None
    if rng.random() < 0.4:
        pre_debug = 0
        for f in rng.sample(['DEBUG_UNCOLLECTABLE', 'DEBUG_STATS'],
                            rng.choice([1, 1, 2])):
            pre_debug |= getattr(gc, f)
    if rng.random() < 0.3:
        pre_thr = rng.choice([(650, 9, 8), (1000, 20, 20), (123, 10, 10)])

    # ... and the embedding program may have its own traceback formatting
    # functions in place (installed after zope.testrunner was imported)
    pre_tb = rng.random() < 0.25
    saved_tb = []

    def pre():
        if pre_tb:
            import traceback
            ofe, ope = traceback.format_exception, traceback.print_exception
            saved_tb.append((ofe, ope))

            def app_format_exception(*a, **k):
                return ofe(*a, **k)

            def app_print_exception(*a, **k):
                return ope(*a, **k)
            traceback.format_exception = app_format_exception
            traceback.print_exception = app_print_exception
        if pre_debug is not None:
            gc.set_debug(pre_debug)
        if 'profile' in pre_hooks:
            import threading

            def app_profile(frame, event, arg):
                return None
            threading.setprofile(app_profile)
            sys.setprofile(app_profile)
        if 'trace' in pre_hooks:
            import threading

            def app_trace(frame, event, arg):
                return None
            threading.settrace(app_trace)
            sys.settrace(app_trace)
        if pre_thr is not None:
            gc.set_threshold(*pre_thr)
        before.update(snapshot())

    def post(res):
        after.update(snapshot())

    viol = []
    counters = {}

    def C(k, n=1):
        counters[k] = counters.get(k, 0) + n

    def V(rule, mech, **d):
        d.update(subset=subset, ending=ending, argv=argv, warn=warn,
                 warnoptions=wopt, pre_hooks=pre_hooks,
                 used_hooks=used_hooks)
        if len(viol) < 8:
            viol.append({'rule': rule, 'mech': mech, 'detail': d})

    import warnings as _warnings
    saved_filters = list(_warnings.filters)
    saved_wopt = list(sys.warnoptions)
    if wopt:
        sys.warnoptions[:] = ['ignore::ImportWarning']
        C('warnoptions_cases')
    try:
        w = common.run_world(spec, plan, opts, extra_argv=argv, pre=pre,
                             post=post, warnings=warn, stdin=stdin)
    finally:
        # never let one case's leftovers reach the next one
        sys.warnoptions[:] = saved_wopt
        _warnings.filters[:] = saved_filters
        if hasattr(_warnings, '_filters_mutated'):
            _warnings._filters_mutated()
        if saved_tb:
            import traceback
            traceback.format_exception, traceback.print_exception = \
                saved_tb[0]
        restore_state(before)
        gc.set_threshold(*orig_gc[0])
        gc.set_debug(orig_gc[1])
        del gc.garbage[gc_garbage_before:]
        vworld.destroy(scratch)
    C('snapshots_compared')
    if ending == 'list_tests':
        C('list_only_runs')
    common.judge_nested(w.events, V, C)
    if pre_tb:
        C('application_traceback_functions')
    if pre_hooks:
        C('application_trace_or_profile_hooks')
        if 'trace' in pre_hooks and 'coverage' in subset:
            C('application_trace_hook_under_coverage')
    if used_hooks and any(e['k'] == 'hooks.used' for e in w.events):
        C('tests_using_trace_or_profile_hooks')
        if 'coverage' in subset and 'trace' in used_hooks['which'] and \
                used_hooks['how'] == 'none':
            C('tests_clearing_the_trace_hook_under_coverage')
    if pre_debug is not None or pre_thr is not None:
        C('non_default_initial_state')
        if pre_debug is not None and 'gcopt' in effects and any(
                getattr(gc, f) & pre_debug for f in effects['gcopt']):
            C('initial_gc_flags_overlap_G')
    if dropped_path:
        C('sys_path_dropped_cases')
    aborted = w.raised is not None
    if aborted:
        C('aborted_runs')
        if isinstance(w.raised, KeyboardInterrupt):
            C('kbint_runs')
        elif ending.startswith('kbint'):
            pass
        # an abort is only legitimate for the endings that inject one
        if ending == 'stray_prof' and 'profile' in subset:
            C('feature_teardown_raised')
        if ending in ('normal', 'failing', 'stop') and 'pm' not in subset:
            V('run-aborted', 'run-raised', tb=(w.raised_tb or '')[-700:])
    diff = {k: (before.get(k), after.get(k)) for k in before
            if before.get(k) != after.get(k)}
    if diff:
        keys = sorted(diff)
        mech = 'state-not-restored-' + '+'.join(keys)
        V('global-state-not-restored', mech,
          diff={k: [str(x)[:200] for x in v] for k, v in diff.items()},
          raised=type(w.raised).__name__ if aborted else None)
    # --- did the options take effect inside the test? (non-vacuity)
    probes = [e for e in w.events if e['k'] == 'probe.state']
    effective = 0
    if probes:
        p = probes[0]
        C('option_effect_probes')
        if 'gc' in effects:
            want = list(effects['gc'])
            got = p['gc_threshold'][:len(want)]
            if got == want:
                effective += 1
            else:
                V('option-not-effective', 'vacuous-gc', got=p['gc_threshold'])
        if 'gcopt' in effects:
            flags = 0
            for f in effects['gcopt']:
                flags |= getattr(gc, f)
            if p['gc_debug'] & flags == flags:
                effective += 1
            else:
                V('option-not-effective', 'vacuous-gcopt', got=p['gc_debug'])
        if 'coverage' in effects:
            if p['trace']:
                effective += 1
            else:
                V('option-not-effective', 'vacuous-coverage')
        if 'profile' in effects:
            effective += 1
        if 'warnings' in effects:
            effective += 1
        if p['tb_format'] != 'traceback':
            effective += 1
    if effective:
        C('effective_option_cases')
    sig = None
    if effective and (aborted or ending in ('failing', 'stop')):
        sig = [subset, ending, wopt]
    return {'viol': viol, 'evals': 1, 'sig': sig, 'counters': counters,
            'sample': {'subset': subset, 'ending': ending, 'argv': argv,
                       'warnings': warn, 'warnoptions': wopt,
                       'raised': type(w.raised).__name__ if aborted else None,
                       'probe': probes[0] if probes else None}}


def restore_state(before):
    """Put the interpreter back (harness hygiene between cases)."""
    import gc
    import sys
    import threading
    import traceback
    import warnings
    if not before:
        return
    try:
        gc.set_threshold(*before['gc_threshold'])
        gc.set_debug(before['gc_debug'])
        sys.settrace(None)
        threading.settrace(None)
        sys.setprofile(None)
        threading.setprofile(None)
        import zope.testrunner.coverage as cov
        sys.settrace = cov.osettrace
        import zope.testrunner.tb_format as tbf
        if traceback.format_exception is tbf.format_exception:
            import importlib
            # the original functions live in the module source
            tb2 = importlib.reload(traceback)
            del tb2
        mon = getattr(sys, 'monitoring', None)
        if mon is not None:
            for i in range(6):
                if mon.get_tool(i) and not (before.get('monitoring_tools')
                                            or [None] * 6)[i]:
                    try:
                        mon.free_tool_id(i)
                    except Exception:
                        pass
    except Exception:
        pass
