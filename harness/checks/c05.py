"""C05 - testSetUp/testTearDown bracket every test: bases first, mirrored,
balanced (also around tests that never start)."""
import itertools
import os
import random

LEVEL = 'exploration'
RULE = ('all sequences over the 15 outcome kinds up to length 3 (3615, '
        'exhaustive; thorough adds sampled length 4-5) run inside a random '
        'layer stack whose layers carry both / one / none of the per-test '
        'hooks, x --repeat 1-3, x -x; a sample is repeated as CLI runs on '
        'every installed CPython 3.9-3.13 (unittest\'s skip protocol differs)'
        '. The per-process token stream SU(L)/T(test)/TD(L) is segmented into '
        'episodes and each is judged (set, base-first order, exact mirror, '
        'balance around unstarted tests). Non-trivial = sequence contains a '
        'non-pass kind and the layer stack has >=2 hook-bearing layers; '
        'distinct by (kind sequence, layer stack, options).')
ASSUMPTIONS = ['world hooks report facts truthfully, in program order']
FLOORS = {'episodes_with_test': 1000, 'episodes_without_test': 50,
          'mirror_checked': 1000, 'nontrivial_episodes': 500,
          'unit_inner_tests': 300,
          'layers_that_got_their_per_test_hooks_in_setUp': 300}
BATCH_TIMEOUT = 300

KINDS = ['pass', 'fail', 'error', 'setup_error', 'teardown_error',
         'cleanup_error', 'body_teardown_error', 'skip_deco', 'skip_setup',
         'skip_body', 'xfail', 'uxsuccess', 'subtests', 'class_skip',
         # sub-tests of which at least one is skipped from inside its
         # subTest block (a skip event that arrives in mid-test, for the
         # sub-test object)
         'subskip']

PYTHONS = ['/root/.pyenv/versions/3.9.18/bin/python',
           '/root/.pyenv/versions/3.10.13/bin/python',
           '/root/.pyenv/versions/3.11.7/bin/python',
           '/root/.pyenv/versions/3.13.0/bin/python']


def EXHAUSTIVE(tier):
    return True


def batch_size(tier):
    return 30


def make_world(prefix, seq, rng, units=True):
    import gen
    n = rng.randint(1, 4)
    layers = gen.random_layer_graph(rng, nmax=n, nmin=n, p_edge=0.7,
                                    p_hook=1.0)
    for ls in layers:
        r = rng.random()
        h = dict(ls['hooks'])
        if r < 0.12:
            h.pop('testSetUp', None)
            h.pop('testTearDown', None)
        elif r < 0.2:
            h.pop('testSetUp', None)
        elif r < 0.28:
            h.pop('testTearDown', None)
        ls['hooks'] = h
    top = layers[-1]['name']
    # one class for normal kinds, one skipped class for class_skip entries;
    # names keep the requested order: test_00, test_01, ...
    classes = []
    cur = None
    for i, k in enumerate(seq):
        skipcls = (k == 'class_skip')
        if cur is None or cur['skip'] != skipcls:
            cur = {'skip': skipcls, 'tests': []}
            classes.append(cur)
        t = {'name': 'test_%02d' % i, 'kind': 'pass' if skipcls else k}
        if k == 'subtests':
            t['subs'] = ['F', 'P', 'E']
        elif k == 'subskip':
            t['kind'] = 'subtests'
            t['subs'] = rng.choice([['S'], ['P', 'S'], ['S', 'S'],
                                    ['S', 'F'], ['F', 'S', 'E'],
                                    ['P', 'S', 'P']])
        if not skipcls and k not in ('skip_deco', 'skip_setup',
                                     'setup_error') and \
                rng.random() < 0.06:
            # the test runs the test runner itself (in-process, output
            # captured, a tree without layers): the inner run starts and
            # stops tests of its own in the middle of this test
            t['actions'] = [{'ph': 'body', 'do': 'nested_run',
                             'argv': rng.choice([[], ['-v']])}]
        cur['tests'].append(t)
    nodes = []
    for ci, c in enumerate(classes):
        node = {'t': 'class', 'name': 'Test%02d' % ci, 'layer': top,
                'tests': c['tests']}
        if c['skip']:
            node['class_skip'] = True
        nodes.append(node)
    extra = []
    if len(layers) > 1 and rng.random() < 0.5:
        # a second layer with its own tests: hooks outside the stack must
        # see nothing
        other = layers[rng.randrange(len(layers) - 1)]['name']
        extra.append({'t': 'class', 'name': 'TestOther', 'layer': other,
                      'tests': [{'name': 'test_o', 'kind': 'pass'},
                                {'name': 'test_p', 'kind': 'skip_deco'}]})
    if rng.random() < 0.15 and units:
        # a class run as a unit (a test entry that runs several test cases
        # against the same result): every test case inside is bracketed like
        # any other test
        fx = rng.choice([{'setUpClass': 'ok'}, {'setUpClass': 'ok'},
                         {'tearDownClass': 'raise:KeyError'},
                         {'setUpClass': 'skip'},
                         {'setUpClass': 'raise:ValueError'}])
        unit = {'t': 'unit', 'name': 'UnitS', 'layer': top, 'fixture': fx,
                'tests': [{'name': 'test_u%d' % j, 'kind': rng.choice(
                    ['pass', 'pass', 'fail', 'error', 'skip_body',
                     'skip_deco', 'teardown_error'])}
                    for j in range(rng.randint(2, 3))]}
        nodes.insert(rng.randint(0, len(nodes)), unit)
    spec = {'prefix': prefix, 'layers_module': prefix + '_layers',
            'layers': layers,
            'modules': [{'name': prefix + '_p.tests.test_s',
                         'file': prefix + '_p/tests/test_s.py',
                         'suite': {'t': 'suite', 'ch': nodes + extra}}]}
    return spec


def cases(tier, seed):
    rng = random.Random(seed * 15485863 + 5)
    out = []
    idx = 0
    seqs = []
    for n in (1, 2, 3):
        seqs += list(itertools.product(KINDS, repeat=n))
    if tier == 'thorough':
        for _ in range(6000):
            seqs.append(tuple(rng.choice(KINDS)
                              for _k in range(rng.randint(4, 5))))
    for seq in seqs:
        idx += 1
        opts = {}
        r = rng.random()
        if r < 0.15:
            opts['repeat'] = rng.randint(2, 3)
        if rng.random() < 0.1:
            opts['stop'] = True
        if rng.random() < 0.2:
            opts['verbose'] = rng.randint(1, 3)
        if rng.random() < 0.1:
            opts['buffer'] = True
        if rng.random() < 0.07:
            # -D: post-mortem debugging (its own per-test loop); the
            # debugger is answered "c" by a scripted stdin
            opts['pm'] = True
        py = None
        pcli = 0.012 if tier == 'quick' else 0.08
        if rng.random() < pcli:
            py = rng.choice(PYTHONS)
        out.append({'seq': list(seq), 'idx': idx, 'opts': opts,
                    'wseed': rng.randrange(1 << 30), 'python': py})
    return out


class ScriptedStdin:
    def readline(self):
        return 'c\n'

    def read(self, *a):
        return ''

    def isatty(self):
        return False

    def close(self):
        pass


def run_case(case):
    import common
    import oracles
    rng = random.Random(case['wseed'])
    opts = case['opts']
    # (-D runs every entry of the layer's test list inside one bracket: no
    # units there)
    spec = make_world('vwb%d' % case['idx'], case['seq'], rng,
                      units=not opts.get('pm'))
    py = case.get('python')
    if py and not os.path.exists(py):
        py = None
    ropts = {k: v for k, v in opts.items() if k != 'pm'}
    if py and not opts.get('pm'):
        w = common.run_world(spec, None, ropts, mode='cli', python=py)
    elif opts.get('pm'):
        py = None
        w = common.run_world(spec, None, ropts, extra_argv=['-D'],
                             stdin=ScriptedStdin())
    else:
        w = common.run_world(spec, None, ropts)
    counters = {'runs': 1, 'cli_other_python': 1 if py else 0,
                'post_mortem_runs': 1 if opts.get('pm') else 0}
    viol = []
    if w.raised is not None and opts.get('pm') and \
            type(w.raised).__name__ in ('EndRun', 'SystemExit'):
        # -D ends the run after the first debugged failure
        w.raised = None
    if w.raised is not None:
        viol.append({'rule': 'run-aborted', 'mech': 'run-raised',
                     'detail': {'tb': (w.raised_tb or '')[-800:],
                                'seq': case['seq'], 'opts': opts}})
        return {'viol': viol, 'evals': 1, 'counters': counters}
    v, st = oracles.bracket_checker(w.events, spec)
    for x in v:
        x['detail'].update(seq=case['seq'], opts=opts, python=py)
        if 'skip_deco' in case['seq'] or 'class_skip' in case['seq']:
            if x['rule'] == 'unbalanced-around-unstarted-test':
                x['mech'] = 'bracket-decorator-skip-unbalanced'
    viol += v
    viol += w.cviol[:3]
    counters.update(st)
    counters['unit_inner_tests'] = len({
        e['id'] for e in w.events if e['k'] == 'test.setUp' and
        '.UnitS.' in e['id']})
    counters['tests_running_the_runner_themselves'] = sum(
        1 for e in w.events if e['k'] == 'nested.run')
    counters['layers_that_got_their_per_test_hooks_in_setUp'] = sum(
        1 for e in w.events if e['k'] == 'layer.late_hooks')
    hook_layers = sum(1 for ls in spec['layers']
                      if 'testSetUp' in ls['hooks'] or
                      'testTearDown' in ls['hooks'])
    sig = None
    if any(k != 'pass' for k in case['seq']) and hook_layers >= 2:
        sig = {'seq': case['seq'], 'layers': [
            (ls['name'], ls['bases'], sorted(ls['hooks']))
            for ls in spec['layers']], 'opts': opts, 'py': py}
    return {'viol': viol[:6], 'evals': st['episodes'], 'sig': sig,
            'counters': counters,
            'sample': {'seq': case['seq'], 'opts': opts, 'python': py,
                       'layers': [(ls['name'], ls['bases'],
                                   sorted(ls['hooks']))
                                  for ls in spec['layers']]}}
