"""C19 - threads left behind by a test are reported precisely."""
import itertools
import random
import zlib
import re

LEVEL = 'exploration'
RULE = ('sequences of 2-6 tests in one layer; every test starts 0-3 threads '
        '(threading.Thread or _thread.start_new_thread; default name, own '
        'name, a name shared with other threads of the same and of other '
        'tests, or a name matching an --ignore-new-thread pattern); each '
        'thread blocks on an event the world controls and is released (and '
        'waited for until it left sys._current_frames()) in the same test, '
        'at the start / middle / end of a later test, or never; includes the '
        'schedule "an earlier leak ends and a new thread starts in the same '
        'test" (thread-ident reuse). Exhaustive for 2 tests with <=1 thread '
        'each over (api x name class x release point) = 900 histories (apis: threading, _thread, _thread whose body uses the threading module), '
        'random beyond. Ground truth = the world\'s own ledger (which test '
        'started which thread; alive set sampled in the test\'s last '
        'cleanup). Oracle: per test, reported set == started-here & alive & '
        'not ignored; nothing reported for other tests. Non-trivial = a leak '
        'alive across >=1 later test; distinct by history.')
ASSUMPTIONS = ['a released thread is waited for until it is gone, so '
               '"alive at test end" is deterministic',
               'reported threads are mapped to ledger entries by ident among '
               'the threads alive at that moment']
FLOORS = {'skipped_tests_judged': 60, 'tests_judged': 1500, 'leaks_expected': 400,
          'leak_across_later_test': 200, 'ident_reuse_histories': 30,
          'ignored_threads': 100, 'dummy_threads': 200,
          'renames_in_later_tests': 40, 'leaks_sharing_a_name': 40,
          'ended_thread_objects_freed': 300, 'nested_runs': 60}
BATCH_TIMEOUT = 300

HEADER = 'The following test left new threads behind:'
THR_RE = re.compile(r'started (?:daemon )?(\d+)\)>')
DUMMY_RE = re.compile(r'DummyThread (\d+), started')


def batch_size(tier):
    return 30


def enum_two():
    """All histories of 2 tests with <=1 thread each."""
    out = []
    apis = ['threading', '_thread', '_thread_touch']
    names = ['default', 'named', 'ignored']
    rel0 = [('same', None)] + [(1, ph) for ph in ('setUp', 'body',
                                                   'tearDown')] + \
        [('never', None)]
    rel1 = [('same', None), ('never', None)]
    t1opts = [None] + list(itertools.product(apis, names, rel1))
    for a0, n0, r0 in itertools.product(apis, names, rel0):
        for t1 in t1opts:
            h = [[{'api': a0, 'name': n0, 'rel': r0}], []]
            if t1:
                h[1].append({'api': t1[0], 'name': t1[1], 'rel': t1[2]})
            out.append(h)
    return out


def cases(tier, seed):
    rng = random.Random(seed * 3001 + 19)
    out = []
    idx = 0
    for h in enum_two():
        idx += 1
        out.append({'idx': idx, 'hist': h, 'reuse': False,
                    'ign': rng.choice([['ign-'], ['ign-', 'zzz'],
                                       ['ign-.*\\d$']])})
    # ident-reuse schedules: leak from test 0 released in test 1's body,
    # immediately followed by a fresh thread that stays alive
    for a0, a1, n1 in itertools.product(['threading', '_thread',
                                         '_thread_touch'],
                                        ['threading', '_thread',
                                         '_thread_touch'],
                                        ['default', 'named']):
        for rep in range(3 if tier == 'quick' else 12):
            idx += 1
            out.append({'idx': idx, 'reuse': True, 'ign': ['ign-'],
                        'hist': [[{'api': a0, 'name': 'named',
                                   'rel': (1, 'body')}],
                                 [{'api': a1, 'name': n1,
                                   'rel': ('never', None)}], []]})
    n = 500 if tier == 'quick' else 9000
    for _ in range(n):
        idx += 1
        L = rng.randint(2, 6)
        hist = []
        for i in range(L):
            ths = []
            for _k in range(rng.choice([0, 0, 1, 1, 2, 3])):
                later = [j for j in range(i + 1, L)]
                r = rng.random()
                if r < 0.3 or not later:
                    rel = rng.choice([('same', None), ('never', None)])
                else:
                    rel = (rng.choice(later),
                           rng.choice(['setUp', 'body', 'tearDown']))
                ths.append({'api': rng.choice(['threading', '_thread',
                                               '_thread_touch', 'timer',
                                               '_thread_late',
                                               'threading_falsy']),
                            'daemon': rng.random() < 0.6,
                            'name': rng.choice(['default', 'named',
                                                'ignored', 'midign',
                                                'shared', 'shared']),
                            'rel': rel})
            if len(ths) >= 2 and rng.random() < 0.35:
                # a worker pool: all of this test's threads carry one name
                for th in ths:
                    if th['api'] in ('threading', 'timer', 'threading_falsy'):
                        th['name'] = 'shared'
                        if rng.random() < 0.7:
                            th['rel'] = rng.choice([('never', None)] + [
                                (j, 'body') for j in range(i + 1, L)])
            hist.append(ths)
        for i, ths in enumerate(hist):
            for th in ths:
                rel = th['rel']
                last = L - 1 if rel[0] == 'never' else (
                    rel[0] if rel[0] != 'same' else i)
                if th['api'] in ('threading', 'timer', 'threading_falsy') and \
                        last > i and \
                        rng.random() < 0.35:
                    th['rename_in'] = rng.randint(i + 1, last)
                    # (before the release when both fall into one test)
                    th['rename_ph'] = 'setUp'
        skips = []
        if rng.random() < 0.45:
            # tests skipped by decorator: they start nothing, run nothing,
            # and must have nothing reported
            skips = [i for i in range(1, L) if rng.random() < 0.4]
            for i in skips:
                for j in range(L):
                    hist[j] = [t for t in hist[j] if t['rel'][0] != i
                               and t.get('rename_in') != i]
                hist[i] = []
        # a quarter of the histories: one of the tests runs the test runner
        # itself (in-process, output captured, over a tree of its own) after
        # it has started its threads - what the doctests of runner plug-ins
        # do; the inner run starts and ends tests of its own
        nested = None
        cand = [i for i in range(L) if i not in skips]
        if cand and rng.random() < 0.25:
            nested = {'in': rng.choice(cand),
                      'argv': rng.choice([[], ['-v'], ['-vv'], ['--buffer']]),
                      'fail': rng.random() < 0.3}
        out.append({'idx': idx, 'hist': hist, 'reuse': rng.random() < 0.3,
                    'skips': skips, 'nested': nested,
                    'ign': rng.choice([['ign-'], ['ign-', 'Dummy-'],
                                       ['ign-.*\\d$'], [],
                                       # patterns that only mean the same
                                       # when each is matched on its own
                                       ['(?i)IGN-', 'WRK-'],
                                       ['(q)\\1', '(ign)-\\d+-(\\d)$'],
                                       ['ign-(?P<n>\\d)', 'zz(?P<n>x)'],
                                       ['zzz|', 'ign-'][::-1],
                                       ['ign', 'rk-ign']])})
    return out


def run_case(case):
    import common
    import gen
    import vworld
    hist = case['hist']
    prefix = 'vwt%d' % case['idx']
    tests = []
    L = len(hist)
    acts = [[] for _ in range(L)]
    keys = {}
    # releases first (so that with reuse=True a release in 'body' comes
    # before the starts of that test)
    starts = [[] for _ in range(L)]
    for i, ths in enumerate(hist):
        for k, th in enumerate(ths):
            key = 'k%d_%d' % (i, k)
            name = None
            if th['name'] == 'named':
                name = 'wrk-%d-%d' % (i, k)
            elif th['name'] == 'ignored':
                name = 'ign-%d-%d' % (i, k)
            elif th['name'] == 'shared':
                # thread names are labels, not identities: several threads
                # (of one test and of different tests) carry the same name
                name = 'wrk-pool'
            elif th['name'] == 'midign':
                # contains an ignore pattern, but not at the start: the
                # patterns are used in match mode
                name = 'wrk-ign-%d-%d' % (i, k)
            keys[key] = dict(th, test=i, tname=name)
            starts[i].append({'ph': 'body', 'do': 'thread', 'key': key,
                              'api': th['api'], 'name': name,
                              'daemon': th.get('daemon', True)})
            rel = tuple(th['rel'])
            if th['api'] == '_thread_late' and rel[0] != 'same':
                # it starts using the threading module during a later test,
                # before it is released
                last = L - 1 if rel[0] == 'never' else rel[0] - 1
                if last >= i + 1:
                    h = zlib.crc32(key.encode())
                    k2 = i + 1 + h % (last - i)
                    acts[k2].append(('setUp', {
                        'ph': ['setUp', 'body'][(h >> 8) % 2],
                        'do': 'touch_thread', 'ev': key}))
                    keys[key]['touched_in'] = k2
            if th.get('rename_in') is not None:
                # the thread gets another name while a later test runs: an
                # ignored one becomes reportable by name, a reportable one
                # ignored - neither makes it a thread of that later test
                newname = ('wrk-r-%d-%d' if th['name'] == 'ignored'
                           else 'ign-r-%d-%d') % (i, k)
                acts[th['rename_in']].append(('setUp', {
                    'ph': th.get('rename_ph', 'body'), 'do': 'rename_thread',
                    'ev': key, 'name': newname}))
            if rel[0] == 'same':
                acts[i].append(('tearDown', {'ph': 'tearDown',
                                             'do': 'release', 'ev': key}))
            elif rel[0] != 'never':
                acts[rel[0]].append((rel[1], {'ph': rel[1], 'do': 'release',
                                              'ev': key}))
    for i in range(L):
        body_rel = [a for ph, a in acts[i] if ph == 'body']
        other = [a for ph, a in acts[i] if ph != 'body']
        if case.get('reuse'):
            body = body_rel + starts[i]
        else:
            body = starts[i] + body_rel
        if i in (case.get('skips') or []):
            tests.append({'name': 'test_%02d' % i, 'kind': 'skip_deco'})
            continue
        nested = case.get('nested')
        if nested and nested['in'] == i:
            body = body + [{'ph': 'body', 'do': 'nested_run',
                            'argv': nested['argv'], 'fail': nested['fail']}]
        tests.append({'name': 'test_%02d' % i, 'kind': 'pass',
                      'threads_ledger': True, 'actions': other + body})
    layers = [{'name': 'Base', 'kind': 'class', 'bases': [],
               'hooks': {'setUp': 'ok', 'tearDown': 'ok'}}]
    spec = gen.simple_world(prefix, layers, {'Base': tests})
    argv = []
    for p in case['ign']:
        argv += ['--ignore-new-thread', p]
    w = common.run_world(spec, None, {'verbose': 1}, extra_argv=argv)
    viol = []
    counters = {}

    def C(k, n=1):
        counters[k] = counters.get(k, 0) + n

    def V(rule, mech, **d):
        d.update(hist=hist, ign=case['ign'], reuse=case.get('reuse'))
        if len(viol) < 6:
            viol.append({'rule': rule, 'mech': mech, 'detail': d})

    if w.raised is not None:
        V('run-aborted', 'run-raised', tb=(w.raised_tb or '')[-700:])
        return {'viol': viol, 'evals': 1, 'counters': counters}
    modname = spec['modules'][0]['name']
    # ---- ledger
    started = {}      # key -> {ident, name, test}
    alive_at_end = {}  # test index -> set(keys)
    for e in w.events:
        if e['k'] == 'thread.start':
            started[e['key']] = {'ident': e['ident'], 'name': e['name'],
                                 'test': int(e['test'].rsplit('_', 1)[1])}
        elif e['k'] == 'thread.alive':
            alive_at_end[int(e['test'].rsplit('_', 1)[1])] = set(e['alive'])
        elif e['k'] == 'thread.release' and e.get('gone') is False:
            return {'inconclusive': 'released thread did not end in time'}
    # ---- runner's reports
    reported = {}
    lines = w.out.split('\n')
    for n, ln in enumerate(lines):
        if ln.strip() == HEADER or ln.endswith(HEADER):
            tstr = lines[n + 1].strip()
            tid = vworld.id_from_str(tstr)
            idents = []
            lst = lines[n + 2]
            idents += [int(x) for x in THR_RE.findall(lst)]
            idents += [int(x) for x in DUMMY_RE.findall(lst)]
            if tid is None:
                V('unparsable-report', 'threads-report-format',
                  lines=lines[n:n + 3])
                continue
            i = int(tid.rsplit('_', 1)[1])
            reported.setdefault(i, []).extend(idents)
    common.judge_nested(w.events, V, C)
    idents_alive = {}
    reuse_seen = False
    seen_idents = {}
    for key, rec in started.items():
        if rec['ident'] in seen_idents:
            reuse_seen = True
        seen_idents[rec['ident']] = key
    if reuse_seen:
        C('ident_reuse_histories')
    nontrivial = False
    for i in range(L):
        alive = alive_at_end.get(i)
        if i in (case.get('skips') or []):
            C('skipped_tests_judged')
            if reported.get(i):
                V('threads-reported-for-a-test-that-never-ran',
                  'threads-reported-for-skipped-test', test=i,
                  idents=reported[i])
            continue
        if alive is None:
            V('ledger-missing', 'harness-ledger-missing', test=i)
            continue
        C('tests_judged')
        want = set()
        for key in alive:
            rec = started[key]
            if rec['test'] != i:
                nontrivial = True
                C('leak_across_later_test')
                continue
            name = rec['name']
            if any(re.match(p, name) for p in case['ign']):
                C('ignored_threads')
                continue
            want.add(key)
        C('leaks_expected', len(want))
        nm = [started[k]['name'] for k in want]
        C('leaks_sharing_a_name', sum(1 for n in nm if nm.count(n) > 1))
        C('dummy_threads', sum(1 for k in want
                               if keys[k]['api'].startswith('_thread')))
        C('late_touch_in_this_test', sum(
            1 for k in alive if keys[k].get('touched_in') == i))
        C('timer_leaks', sum(1 for k in want if keys[k]['api'] == 'timer'))
        C('falsy_thread_object_leaks', sum(
            1 for k in want if keys[k]['api'] == 'threading_falsy'))
        C('nondaemon_leaks', sum(1 for k in want
                                 if keys[k].get('daemon') is False))
        C('touch_threads_gone', sum(
            1 for k, rec in started.items()
            if keys[k]['api'] == '_thread_touch' and k not in alive
            and rec['test'] <= i))
        by_ident = {started[k]['ident']: k for k in alive}
        got = set()
        unknown = []
        for ident in reported.get(i, []):
            if ident in by_ident:
                got.add(by_ident[ident])
            else:
                unknown.append(ident)
        if unknown:
            V('unknown-thread-reported', 'threads-unknown-reported', test=i,
              idents=unknown)
        if got != want:
            missing = sorted(want - got)
            extra = sorted(got - want)
            mech = 'threads-report-differs'
            if missing and not extra:
                # classification of the known mechanism only: the missing
                # thread reuses the ident of a thread that existed when the
                # test started
                pairs = set()
                for k in missing:
                    prev = [keys[k2]['api'] for k2, rec in started.items()
                            if rec['test'] < i and
                            rec['ident'] == started[k]['ident']]
                    if not prev:
                        pairs = None
                        break
                    pairs.add('%s>%s' % (prev[-1], keys[k]['api']))
                if pairs and 'threading>threading' in pairs:
                    mech = 'threads-ident-reuse-threading'
                elif pairs:
                    # every missing thread reuses the ident of an earlier
                    # thread and a _thread-started thread is involved
                    mech = 'threads-ident-reuse-lowlevel-thread'
            V('reported-threads-differ-from-ledger', mech, test=i,
              missing=[(k, started[k]) for k in missing],
              extra=[(k, started[k]) for k in extra])
    C('renames_in_later_tests', sum(
        1 for e in w.events if e['k'] == 'thread.rename'))
    # ended threads are forgotten by the world: their objects must really be
    # gone when the next test ends (otherwise a runner that only holds them
    # weakly is never put to the test)
    ended = {e['key'] for e in w.events
             if e['k'] == 'thread.release' and e.get('gone') and
             e.get('freed') is not None}
    kept = set()
    for e in w.events:
        if e['k'] == 'thread.alive':
            kept = set(e.get('ended_but_kept') or ())
    C('ended_thread_objects_freed', len(ended - kept))
    C('ended_thread_objects_still_referenced', len(ended & kept))
    sig = None
    if nontrivial:
        sig = [hist, case['ign'], bool(case.get('reuse'))]
    return {'viol': viol, 'evals': L, 'sig': sig, 'counters': counters,
            'sample': {'hist': hist, 'ign': case['ign'],
                       'reported': {str(k): v for k, v in reported.items()}}}
