"""C04 - exceptions raised by tests and layers are contained."""
import os
import random
import re

LEVEL = 'fault_enumeration'
RULE = ('fault enumeration: (exception class x phase x position x options). '
        'Worlds of 1-3 layers with 1-4 tests each; one or two faulty items '
        '(test phase in {setUp, body, sub-test, tearDown, cleanup, '
        'body+tearDown, body+cleanup, fail+tearDown error, k failing '
        'sub-tests, unexpected success, SystemExit} or layer setUp/tearDown) '
        'placed at first/middle/last test of first/middle/last layer; '
        '--buffer on/off x -v0..3 x in-process/child (layers behind a '
        'NotImplementedError tear-down, -j2). Oracle: run returns, every '
        'other runnable test has run, layer machine ends empty, one summary '
        'line per layer iteration, totals line, every faulty test and every layer whose hook raised named in the final lists (-v). Non-trivial = a fault fired '
        'and >=1 test was scheduled after it; distinct by (shape, faults, '
        'options).')
ASSUMPTIONS = ['unittest itself turns SystemExit in a test into an error',
               'world hooks report facts truthfully']
FLOORS = {'faults_fired': 100, 'tests_after_fault': 100, 'multi_event': 10,
          'buffer_cases': 30, 'child_cases': 5, 'cli_cases': 30,
          'color_or_progress': 60, 'names_checked': 150,
          'class_fixture_events': 40, 'layer_failures_checked': 40}
BATCH_TIMEOUT = 300

EXCS = ['ValueError', 'KeyError', 'NeedsArgs', 'CustomDerived', 'Chained',
        'Context', 'Group', 'UnicodeEncodeError', 'OSError', 'AssertionError',
        'StopIteration', 'RecursionError', 'LookupError',
        # classes with unusual object protocols
        'Unhashable', 'UnhashableChained', 'AlwaysEqual', 'FalsyError',
        'BufferError', 'NotADirectoryError',
        'ImportError', 'SyntaxError', 'TimeoutError', 'MemoryError',
        'NotImplementedError']
MSGS = [None, 'café ☃', 'line1\nline2\n  indented', 'x' * 300,
        '%s %d {}', '',
        # what os.fsdecode() makes of an undecodable file name, control and
        # escape characters, NUL, astral planes
        'no such file: /tmp/\udcff\udcfe.txt', 'lone \ud800 surrogate',
        'ctl \x1b[31m\x08\x07 \r back', 'nul \x00 byte',
        '\U0001f600 \U00010000', '\x85\u2028 line separators']
FAULT_KINDS = ['fail', 'error', 'setup_error', 'teardown_error',
               'cleanup_error', 'body_teardown_error', 'body_cleanup_error',
               'fail_teardown_error', 'subtests', 'uxsuccess', 'sysexit',
               'setup_fail', 'cleanup_builtin_error']


PYTHONS = ['/root/.pyenv/versions/3.9.18/bin/python',
           '/root/.pyenv/versions/3.10.13/bin/python',
           '/root/.pyenv/versions/3.11.7/bin/python',
           '/root/.pyenv/versions/3.13.0/bin/python']


def batch_size(tier):
    return 12


def _exc_for(rng, hook):
    """An exception class for a layer hook (out of tearDown a
    NotImplementedError is no error but "cannot be torn down")."""
    x = rng.choice(EXCS)
    while hook == 'tearDown' and x == 'NotImplementedError':
        x = rng.choice(EXCS)
    return x


def make_case(rng, idx, tier):
    import gen
    prefix = 'vwc%d' % idx
    nl = rng.randint(1, 3)
    layers = gen.random_layer_graph(rng, nmax=nl, nmin=nl, p_hook=0.85)
    mi_family = rng.random() < 0.2
    if mi_family:
        # a layer on two roots and siblings on one of them: a failing root
        # must not take the healthy sibling layers with it
        layers = gen.mi_sibling_family(rng, p_hook=0.85)
    keys = [ls['name'] for ls in layers]
    # base layers often own no tests of their own: they are only ever set up
    # on behalf of a derived layer
    used_as_base = {b for ls in layers for b in ls['bases']}
    if mi_family or rng.random() < 0.5:
        kept = [k for k in keys
                if k not in used_as_base or
                rng.random() < (0.3 if mi_family else 0.5)]
        keys = kept or keys
    if rng.random() < 0.3:
        keys = [None] + keys
    tbl = {}
    for k in keys:
        tbl[k] = [{'name': 'test_%d' % i, 'kind': 'pass'}
                  for i in range(rng.randint(1, 4))]
    # place 1-2 faulty tests
    nf = 1 if rng.random() < 0.7 else 2
    for _ in range(nf):
        k = rng.choice(keys)
        pos = rng.choice([0, len(tbl[k]) // 2, len(tbl[k]) - 1])
        t = tbl[k][pos]
        t['kind'] = rng.choice(FAULT_KINDS)
        t['exc'] = rng.choice(EXCS)
        if tier == 'thorough' and rng.random() < 0.05:
            t['exc'] = 'HostileStr'
        t['msg'] = rng.choice(MSGS)
        if t['kind'] == 'subtests':
            t['subs'] = [rng.choice('FEP') for _ in range(rng.randint(1, 4))]
            if 'F' not in t['subs'] and 'E' not in t['subs']:
                t['subs'][0] = 'F'
        if rng.random() < 0.5:
            t['actions'] = [{'ph': rng.choice(['setUp', 'body', 'tearDown']),
                             'do': 'write', 'stream': rng.choice(
                                 ['stdout', 'stderr']),
                             'text': 'noise-%d\n' % idx}]
    # well-behaved neighbours of the faulty tests: skips of every flavour,
    # expected failures, and sometimes a test that leaves an uncollectable
    # object in gc.garbage (the runner then reports garbage after every
    # following test)
    for k in keys:
        for t in tbl[k]:
            if t['kind'] == 'pass' and rng.random() < 0.2:
                t['kind'] = rng.choice(['skip_deco', 'skip_setup',
                                        'skip_body', 'xfail'])
    if rng.random() < 0.12:
        k = rng.choice(keys)
        t = rng.choice(tbl[k])
        if t['kind'] != 'skip_deco':
            t.setdefault('actions', []).append(
                {'ph': 'body' if t['kind'] not in (
                    'setup_error', 'setup_fail', 'skip_setup') else 'setUp',
                 'do': 'uncollectable', 'tag': 'c04-%d' % idx})
    plan = {}
    if mi_family and rng.random() < 0.8:
        # one of the two roots cannot be set up: everything on the other
        # root only must still run
        ln = rng.choice([ls['name'] for ls in layers if not ls['bases']])
        plan = {'layers': {ln: {'setUp': 'raise:' + rng.choice(EXCS)}}}
    elif rng.random() < 0.3:
        ln = rng.choice([ls['name'] for ls in layers])
        hook = rng.choice(['setUp', 'tearDown'])
        plan = {'layers': {ln: {hook: 'raise:' + _exc_for(rng, hook)}}}
    withb0 = [ls for ls in layers if ls.get('bases')]
    if withb0 and not mi_family and rng.random() < 0.12:
        # two tear-downs of one pass go wrong in different ways: one raises
        # an ordinary exception, the other one says it cannot be done
        ls = rng.choice(withb0)
        pair = [ls['name'], rng.choice(ls['bases'])]
        rng.shuffle(pair)
        plan = {'layers': {pair[0]: {'tearDown': 'raise:' + _exc_for(
            rng, 'tearDown')},
                           pair[1]: {'tearDown': 'nie'}}}
    if rng.random() < 0.25:
        # a layer that cannot be torn down - preferably one with bases, so
        # that something is left to tear down after it
        withb = [ls['name'] for ls in layers if ls.get('bases')]
        ln = rng.choice(withb if withb and rng.random() < 0.7
                        else [ls['name'] for ls in layers])
        plan.setdefault('layers', {}).setdefault(ln, {})['tearDown'] = 'nie'
    opts = {'verbose': rng.randint(0, 3)}
    if rng.random() < 0.5:
        opts['buffer'] = True
    if rng.random() < 0.2:
        opts['repeat'] = rng.choice([2, 2, 3])
        if rng.random() < 0.6:
            # the faulty tests go wrong in the first iteration only (state
            # left behind makes the re-run pass): recorded all the same
            for k in tbl:
                for t in tbl[k]:
                    if t['kind'] in ('fail', 'error', 'teardown_error',
                                     'body_teardown_error', 'subtests',
                                     'cleanup_error', 'setup_error'):
                        t['kinds_seq'] = [t['kind'], 'pass']
    if rng.random() < 0.06:
        opts['processes'] = 2
    # the other formatters (colourised, progress) print failures their own way
    r = rng.random()
    if r < 0.12:
        opts['color'] = True
    elif r < 0.2:
        opts['progress'] = True
    elif r < 0.25:
        opts['color'] = opts['progress'] = True
    spec = gen.simple_world(prefix, layers, tbl)
    if rng.random() < 0.2:
        # classes run as a unit through the stdlib suite machinery: class
        # fixtures that raise or skip (result events without startTest)
        gen.add_unit_nodes(rng, spec)
    # a real process: stdout / stderr are pipes with the interpreter's own
    # encoding and error handler (the in-process recorder accepts any str)
    mode = 'cli' if rng.random() < 0.15 else 'in'
    # half of the CLI runs use another installed CPython (unittest's result
    # protocol and the traceback module differ between 3.9 ... 3.13)
    py = rng.choice(PYTHONS) if mode == 'cli' and rng.random() < 0.5 \
        else None
    return {'spec': spec, 'plan': plan, 'opts': opts, 'mode': mode,
            'python': py}


def cases(tier, seed):
    rng = random.Random(seed * 104729 + 4)
    n = 500 if tier == 'quick' else 12000
    return [make_case(rng, i, tier) for i in range(n)]


RUNNER_TB = re.compile(r'Traceback \(most recent call last\):\n(?:.*\n)*?'
                       r'  File "[^"]*zope/testrunner/[^"]*"')


def classify_raise(tb, case):
    tb = tb or ''
    hooks = [str(v) for h in ((case.get('plan') or {}).get('layers')
                              or {}).values() for v in h.values()]
    if 'raise:MemoryError' in hooks and 'MemoryError' in tb and \
            ('in setup_layer' in tb or 'in tear_down_unneeded' in tb):
        # the runner re-raises a MemoryError that comes out of a layer's
        # setUp / tearDown on purpose ("except MemoryError: raise")
        return 'memoryerror-from-layer-hook-reraised'
    if 'UnicodeEncodeError' in tb and 'formatter.py' in tb:
        return 'unencodable-text-aborts-run'
    if 'getvalue' in tb and '_restoreStdStreams' in tb:
        return 'buffer-second-event-getvalue'
    if 'tests_with_failures' in tb and 'cannot unpack' in tb:
        return 'uxsuccess-bare-test-unpack'
    if 'process.py' in tb and 'cannot unpack' in tb:
        return 'uxsuccess-bare-test-unpack'
    if "_testMethodName" in tb and 'stopTest' in tb:
        return 'decorator-skip-test-dict-wiped'
    return 'run-raised'


def run_case(case):
    import common
    import oracles
    import vworld
    spec, plan, opts = case['spec'], case['plan'], case['opts']
    import gc
    g0 = len(gc.garbage)
    try:
        py = case.get('python')
        if py and not os.path.exists(py):
            py = None
        w = common.run_world(spec, plan, opts, mode=case.get('mode', 'in'),
                             python=py)
    finally:
        del gc.garbage[g0:]
    viol = []
    counters = {'runs': 1}
    events = w.events
    model = oracles.LayerModel(spec, plan)
    parent = next((e['pid'] for e in events if e['k'] == 'run.enter'), None)
    lf = plan.get('layers') or {}
    su_fail = {ln for ln, h in lf.items()
               if str(h.get('setUp', '')).startswith('raise')}
    tests = {tid: (ts, layer) for tid, ts, layer, lvl, m, node
             in vworld.iter_tests(spec)}
    bad_tests = [tid for tid, (ts, l) in tests.items()
                 if vworld.is_bad(ts)]
    multi = [tid for tid, (ts, l) in tests.items()
             if sum(vworld.outcome_events(ts)) > 1]
    fired = [tid for tid in bad_tests
             if any(e['k'] == 'test.setUp' and e['id'] == tid
                    for e in events)]
    lfired = [e for e in events if e['k'] in ('layer.setUp.exit',
                                               'layer.tearDown.exit')
              and not e.get('ok') and (e['k'] == 'layer.setUp.exit' or
                                       e.get('exc') != 'NotImplementedError')]
    counters['faults_fired'] = len(fired) + len(lfired)
    counters['multi_event'] = 1 if set(multi) & set(fired) else 0
    counters['buffer_cases'] = 1 if opts.get('buffer') else 0
    child_pids = {e['pid'] for e in events
                  if e['k'].startswith('test.') and e['pid'] != parent}
    counters['child_cases'] = 1 if child_pids else 0
    counters['cli_cases'] = 1 if case.get('mode') == 'cli' else 0
    counters['class_fixture_events'] = sum(
        1 for e in events if e['k'].startswith('class.'))
    counters['other_python_cases'] = 1 if py else 0
    counters['color_or_progress'] = 1 if (opts.get('color') or
                                          opts.get('progress')) else 0
    if case.get('mode') == 'cli' and w.raised is None and \
            getattr(w, 'err', '') and RUNNER_TB.search(w.err):
        # an uncaught exception ends the process with status 1, like a
        # failed run: the traceback of the runner itself on stderr tells
        w.raised = 'runner traceback on stderr'
        w.raised_tb = w.err[-1500:]
    if w.raised is not None:
        viol.append({'rule': 'run-aborted', 'mech': classify_raise(
            w.raised_tb, case),
            'detail': {'tb': (w.raised_tb or '')[-900:], 'opts': opts,
                       'plan': plan,
                       'kinds': sorted({tests[t][0]['kind']
                                        for t in bad_tests})}})
        return {'viol': viol, 'evals': 1, 'counters': counters}
    # a child that aborted shows as a parent-side error banner
    if 'Could not communicate with subprocess' in w.out and child_pids:
        viol.append({'rule': 'child-aborted',
                     'mech': classify_raise(w.out, case) if
                     'Traceback' in w.out else 'child-aborted',
                     'detail': {'out': w.out[-1200:], 'opts': opts}})
    # 2. every other runnable test has run
    want = vworld.expected_tests(spec, opts)
    rep = opts.get('repeat') or 1
    started = common.ran_counts(events, 'test.setUp')
    after = 0
    first_fault_seq = None
    for e in events:
        if e['k'] == 'test.setUp' and e['id'] in bad_tests:
            first_fault_seq = (e['pid'], e['seq'])
            break
    for lname, tids in want.items():
        short = model.short(lname)
        blocked = bool(model.closure(short) & su_fail)
        for tid in tids:
            ts = tests[tid][0]
            if ts['kind'] == 'skip_deco':
                continue
            if blocked:
                if started.get(tid):
                    viol.append({'rule': 'test-ran-in-failed-layer',
                                 'mech': 'contain-failed-layer-ran',
                                 'detail': {'test': tid}})
                continue
            counters['expected_checked'] = \
                counters.get('expected_checked', 0) + 1
            if started.get(tid, 0) != rep:
                viol.append({'rule': 'runnable-test-did-not-run',
                             'mech': 'contain-test-lost',
                             'detail': {'test': tid, 'want': rep,
                                        'got': started.get(tid, 0),
                                        'opts': opts, 'plan': plan}})
    if first_fault_seq:
        after = sum(1 for e in events if e['k'] == 'test.setUp' and
                    (e['pid'] != first_fault_seq[0] or
                     e['seq'] > first_fault_seq[1]))
    counters['tests_after_fault'] = after
    # 3. layers torn down
    v, st = oracles.layer_machine(events, spec, plan)
    viol += v
    viol += w.cviol[:3]
    counters['test_events_judged'] = st['test_events_judged']
    # 4. summary line per layer iteration, totals
    info = w.info
    ran_layers = {l['name']: l for l in info['layers']}
    nlayers_hdr = 0
    for lname, tids in want.items():
        short = model.short(lname)
        if model.closure(short) & su_fail:
            continue
        nlayers_hdr += 1
        blk = ran_layers.get(lname)
        if blk is None or len(blk['ran']) != rep:
            viol.append({'rule': 'summary-line-missing',
                         'mech': 'contain-summary-missing',
                         'detail': {'layer': lname,
                                    'got': blk and blk['ran'], 'rep': rep,
                                    'out': w.out[-800:]}})
    # 5. "recorded against that test": every faulty test that ran is named
    # in the final failure / error lists (printed with -v), in every mode
    if (opts.get('verbose') or 0) >= 1:
        listed = list(info['failures_list'] or []) + \
            list(info['errors_list'] or [])
        for tid in fired:
            ts, layer = tests[tid]
            short = 'UNIT' if layer is None else layer
            if model.closure(short) & su_fail:
                continue
            counters['names_checked'] = counters.get('names_checked', 0) + 1
            pyver = None
            m = re.search(r'/(\d+)\.(\d+)\.\d+/bin/python', py or '')
            if m:
                pyver = (int(m.group(1)), int(m.group(2)))
            s0 = vworld.test_str(tid, pyver)
            if not any(n.startswith(s0) for n in listed):
                viol.append({'rule': 'failure-not-recorded-against-its-test',
                             'mech': 'contain-name-missing',
                             'detail': {'test': tid, 'kind': ts['kind'],
                                        'listed': listed[:8], 'opts': opts,
                                        'plan': plan,
                                        'out': w.out[-600:]}})
    # 6. "recorded against that layer": every layer hook that raised is
    # named in the final error list (a setUp failure under the layer whose
    # hook raised or under a layer that was being set up on top of it)
    if (opts.get('verbose') or 0) >= 1 and lfired:
        left = [n for n in (info['errors_list'] or [])
                if n.startswith('Layer: ')]
        for e in lfired:
            hook = 'setUp' if 'setUp' in e['k'] else 'tearDown'
            cands = ['Layer: %s.%s' % (
                vworld.full_layer_name(spec, e['layer']), hook)]
            if hook == 'setUp':
                cands += ['Layer: %s.setUp' % vworld.full_layer_name(spec, d)
                          for d in sorted(model.derived(e['layer']))]
            counters['layer_failures_checked'] = \
                counters.get('layer_failures_checked', 0) + 1
            for c in cands:
                if c in left:
                    left.remove(c)
                    break
            else:
                viol.append({'rule': 'failure-not-recorded-against-its-layer',
                             'mech': 'contain-layer-name-missing',
                             'detail': {'layer': e['layer'], 'hook': hook,
                                        'exc': e.get('exc'),
                                        'listed': info['errors_list'],
                                        'opts': opts, 'plan': plan,
                                        'out': w.out[-600:]}})
    if len(want) > 1 and info['total'] is None:
        viol.append({'rule': 'totals-line-missing',
                     'mech': 'contain-totals-missing',
                     'detail': {'out': w.out[-800:]}})
    sig = None
    if counters['faults_fired'] and (after or lfired):
        sig = [common.shape_of(spec), plan, opts]
    if any(e['k'] in ('layer.setUp.exit', 'layer.tearDown.exit') and
           e.get('exc') == 'MemoryError' for e in w.events):
        # a MemoryError did come out of a layer hook: the runner gives up on
        # purpose (known finding); what follows from that in a layer
        # subprocess - it dies without a report - carries the same key
        counters['memoryerror_out_of_a_layer_hook'] = 1
        for x in viol:
            if x['rule'] in ('child-aborted', 'layers-left-set-up-at-end',
                             'failure-not-recorded-against-its-layer',
                             'runnable-test-did-not-run',
                             'summary-line-missing', 'totals-line-missing'):
                x['mech'] = 'memoryerror-from-layer-hook-reraised'
    return {'viol': viol[:8], 'evals': 1, 'sig': sig, 'counters': counters,
            'sample': {'opts': opts, 'plan': plan,
                       'faulty': [(t, tests[t][0]['kind'],
                                   tests[t][0].get('exc'))
                                  for t in bad_tests]}}
