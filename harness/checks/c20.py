"""C20 - DiGraph.sccs: each SCC exactly once, partition, default mode = cyclic
components only.  Oracle: independent reachability closure."""
import itertools
import os
import random

LEVEL = 'exploration'
RULE = ('all digraphs with self-loops on <=N nodes (adjacency bitmask) x all '
        'node insertion orders x {id-keyed fresh objects, make_hashable=None '
        'ints/strings} x {trivial, default}, with/without add_neighbors for '
        'sink nodes, edges to unknown nodes; random graphs to 40 nodes; real '
        'cyclic garbage through TestResult.stopTest (--gc-after-test -vvvv). '
        'Non-trivial = graph has >=1 cycle and >=1 edge between different '
        'components (distinct by (n, mask, order, mode)).')
ASSUMPTIONS = ['reachability-closure oracle (O(n^3)) is correct',
               'CPython set iteration order is what varies visit order; '
               'covered by varying labels and insertion orders']
FLOORS = {'sccs_calls': 1000, 'nontrivial': 100, 'protocol_builds': 500,
          'shared_containers': 50, 'abandoned_enumerations': 200,
          'queries_after_growth': 200}
BATCH_TIMEOUT = 900


def EXHAUSTIVE(tier):
    return True


def batch_size(tier):
    return 1


def cases(tier, seed):
    out = []
    nmax = 4 if tier == 'thorough' else 3
    for n in range(0, nmax + 1):
        total = 1 << (n * n)
        chunks = 64 if n == 4 else 1
        step = (total + chunks - 1) // chunks
        for lo in range(0, total, step):
            out.append({'kind': 'enum', 'n': n, 'lo': lo,
                        'hi': min(total, lo + step)})
    if tier == 'quick':
        for k in range(8):
            out.append({'kind': 'sample4', 'seed': seed * 1000 + k,
                        'count': 1500})
    nrand = 32 if tier == 'thorough' else 8
    for k in range(nrand):
        out.append({'kind': 'random', 'seed': seed * 1000 + k,
                    'count': 400 if tier == 'thorough' else 150})
    # large, deep graphs whose components are known by construction
    # (the O(n^3) oracle is not needed): long chains, big rings, rings
    # with tails, chains of rings
    for k in range(6 if tier == 'thorough' else 2):
        out.append({'kind': 'deep', 'seed': seed * 1000 + k,
                    'sizes': [1200, 3000, 6000] if tier == 'thorough'
                    else [1500, 4000]})
    nreal = 48 if tier == 'thorough' else 8
    for k in range(nreal):
        out.append({'kind': 'real', 'seed': seed * 1000 + k,
                    'count': 12 if tier == 'thorough' else 5})
    return out


# ---------------------------------------------------------------- the oracle

def want_components(nodes, edges):
    nb = {n: set() for n in nodes}
    for a, b in edges:
        if a in nb and b in nb:
            nb[a].add(b)
    reach = {}
    for s in nodes:
        seen = set()
        stack = list(nb[s])
        while stack:
            x = stack.pop()
            if x not in seen:
                seen.add(x)
                stack.extend(nb[x])
        reach[s] = seen
    comps = set()
    for n in nodes:
        comps.add(frozenset([n] + [m for m in reach[n] if n in reach[m]]))
    cyclic = {c for c in comps
              if len(c) > 1 or next(iter(c)) in nb[next(iter(c))]}
    cross = any(a in nb and b in nb and
                not any(a in c and b in c for c in comps)
                for a, b in edges)
    return comps, cyclic, cross


class Obj:
    __slots__ = ('tag',)

    def __init__(self, tag):
        self.tag = tag

    def __repr__(self):
        return 'O%s' % self.tag


class EqObj(Obj):
    """Identity-keyed graphs must not compare or hash the nodes: every
    EqObj equals every other one and they all hash alike."""
    __slots__ = ()

    def __eq__(self, other):
        return True

    def __ne__(self, other):
        return False

    def __hash__(self):
        return 7


class HostileObj(Obj):
    """== and hash() raise (gc.garbage may hold anything)."""
    __slots__ = ()

    def __eq__(self, other):
        raise RuntimeError('node compared')

    def __hash__(self):
        raise RuntimeError('node hashed')


ID_MODES = {
    'id': Obj,
    'ideq': EqObj,                      # all equal, same hash
    'idlist': lambda l: [0],            # unhashable, all equal (real
                                        # garbage is mostly dicts / lists)
    'idhostile': HostileObj,
}


def _container(rng, items, hashable, made):
    """The same items handed over as a list, tuple, iterator - and, for
    hashable nodes, as a set, frozenset or the keys of a dict."""
    kinds = ['list', 'tuple', 'iter']
    if hashable:
        kinds += ['set', 'set', 'frozenset', 'keys']
    k = rng.choice(kinds)
    items = list(items)
    if k == 'list':
        c = list(items)
        made.append(c)
        return c
    if k == 'tuple':
        return tuple(items)
    if k == 'iter':
        return iter(items)
    if k == 'set':
        c = set(items)
        made.append(c)
        return c
    if k == 'frozenset':
        return frozenset(items)
    d = dict.fromkeys(items)
    made.append(d)
    return d.keys()


def build_by_protocol(DiGraph, rng, objs, order, adj, extra, hashable,
                      skip_sink_call, stats):
    """The same graph built the way callers may use the API: nodes given to
    the constructor and / or added in pieces, the neighbours of a node added
    over several add_neighbors() calls (with repetitions), in any container
    type, one container object shared between nodes with the same
    neighbours, and the caller re-using (emptying) its own containers once
    the calls have been made."""
    made = []
    kw = {'make_hashable': None} if hashable else {}
    seq = [objs[i] for i in order]
    cut = rng.randint(0, len(seq))
    if cut == 0 and rng.random() < 0.5:
        g = DiGraph(**kw)
    else:
        g = DiGraph(_container(rng, seq[:cut], False, made), **kw)
    rest = seq[cut:]
    while rest:
        k = rng.randint(1, len(rest))
        g.add_nodes(_container(rng, rest[:k], False, made))
        rest = rest[k:]
    calls = []
    shared = {}
    for i in order:
        nb = list(adj[i])
        if skip_sink_call and not nb:
            continue
        if not nb or rng.random() < 0.4:
            chunks = [nb]
        else:
            rng.shuffle(nb)
            k = rng.randint(1, len(nb))
            chunks = [nb[:k], nb[k:] + (nb[:1] if rng.random() < 0.3 else [])]
            if rng.random() < 0.3:
                chunks.append(list(nb))
        for ch in chunks:
            calls.append((i, ch))
    if rng.random() < 0.5:
        rng.shuffle(calls)
    # an incremental client registers every object together with what it
    # refers to: nodes that are known already - some with edges on record -
    # are named again in later add_nodes() calls
    renamed = rng.random() < 0.5
    for n_call, (i, ch) in enumerate(calls):
        if renamed and rng.random() < 0.5:
            again = [objs[i]] + [objs[j] for j in ch]
            if n_call and rng.random() < 0.5:
                again.append(objs[calls[n_call - 1][0]])
            rng.shuffle(again)
            g.add_nodes(_container(rng, again, False, made))
            stats['add_nodes_naming_known_nodes'] = \
                stats.get('add_nodes_naming_known_nodes', 0) + 1
        items = [objs[j] for j in ch] + extra
        keyc = tuple(sorted(ch))
        if hashable and not extra and keyc in shared and rng.random() < 0.6:
            c = shared[keyc]          # the very same set object again
            stats['shared_containers'] = stats.get('shared_containers', 0) + 1
        else:
            c = _container(rng, items, hashable, made)
            if isinstance(c, set) and not extra:
                shared[keyc] = c
        g.add_neighbors(objs[i], c)
    if rng.random() < 0.6:
        for c in made:
            c.clear()
        stats['containers_reused_by_caller'] = \
            stats.get('containers_reused_by_caller', 0) + 1
    stats['protocol_builds'] = stats.get('protocol_builds', 0) + 1
    stats['add_neighbors_calls'] = stats.get('add_neighbors_calls', 0) + \
        len(calls)
    return g


def check_graph(DiGraph, labels, edges, order, mode, stats, viol, desc,
                skip_sink_call=False, unknown=None, proto=None):
    """Build the graph through the public API and compare sccs()."""
    n = len(labels)
    if mode in ID_MODES:
        objs = [ID_MODES[mode](l) for l in labels]
        if proto is None:
            g = DiGraph([objs[i] for i in order])
        key = id
        stats['id_' + mode] = stats.get('id_' + mode, 0) + 1
    else:
        objs = list(labels)
        if proto is None:
            g = DiGraph([objs[i] for i in order], make_hashable=None)

        def key(x):
            return x
    adj = {i: [] for i in range(n)}
    for a, b in edges:
        adj[a].append(b)
    extra = [ID_MODES[mode]('unknown')] if (unknown and mode in ID_MODES) \
        else (['<unknown>'] if unknown else [])
    if proto is not None:
        desc = dict(desc, proto=proto)
        g = build_by_protocol(DiGraph, random.Random(proto), objs, order,
                              adj, extra, mode not in ID_MODES,
                              skip_sink_call, stats)
    for i in order:
        if proto is not None:
            break
        if skip_sink_call and not adj[i]:
            continue
        g.add_neighbors(objs[i], [objs[j] for j in adj[i]] + extra)
    idx = {key(o): i for i, o in enumerate(objs)}
    rounds = [list(edges)]
    keep_alive = []
    if proto is not None:
        # the query side of the API: an enumeration that is begun and
        # abandoned (next(g.sccs(), None), any(...), a break) before the
        # complete ones, a generator that stays open meanwhile, and the graph
        # growing between two complete queries
        prng = random.Random(proto * 7 + 1)
        if prng.random() < 0.5:
            it = g.sccs(trivial=prng.random() < 0.5)
            for _ in range(prng.randint(1, 2)):
                if next(it, None) is None:
                    break
            if prng.random() < 0.5:
                keep_alive.append(it)
            del it
            stats['abandoned_enumerations'] = \
                stats.get('abandoned_enumerations', 0) + 1
        if n and prng.random() < 0.5:
            more = [(prng.randrange(n), prng.randrange(n))
                    for _ in range(prng.randint(1, 2))]
            rounds.append(list(edges) + more)
    for rno, cur_edges in enumerate(rounds):
        if rno:
            for a, b in cur_edges[len(edges):]:
                g.add_neighbors(objs[a], [objs[b]])
            stats['queries_after_growth'] = \
                stats.get('queries_after_growth', 0) + 1
        _verify(g, n, cur_edges, objs, key, idx, stats, viol,
                dict(desc, grown=bool(rno)), skip_sink_call)
    del keep_alive[:]


def _verify(g, n, edges, objs, key, idx, stats, viol, desc, skip_sink_call):
    comps, cyclic, cross = want_components(list(range(n)), edges)
    for trivial in (False, True):
        stats['sccs_calls'] += 1
        try:
            got = list(g.sccs(trivial=trivial))
        except Exception as e:
            viol.append({'rule': 'sccs-raises',
                         'mech': 'sccs-%s-sink-without-neighbors'
                                 % type(e).__name__
                         if (skip_sink_call and not trivial)
                         else 'sccs-raises-' + type(e).__name__,
                         'detail': dict(desc, trivial=trivial, err=repr(e))})
            continue
        gotsets = [frozenset(idx[key(o)] for o in c) for c in got]
        want = comps if trivial else cyclic
        ok = (len(gotsets) == len(set(gotsets)) and set(gotsets) == want and
              all(len(c) == len(s) for c, s in zip(got, gotsets)))
        if trivial and ok:
            allnodes = [x for s in gotsets for x in s]
            ok = sorted(allnodes) == list(range(n))
        if not ok:
            viol.append({'rule': 'sccs-wrong', 'mech': 'sccs-wrong',
                         'detail': dict(desc, trivial=trivial,
                                        got=[sorted(s) for s in gotsets],
                                        want=[sorted(s) for s in want])})
    if cyclic and cross:
        stats['nontrivial'] += 1


LABELSETS = {
    'int': lambda n: list(range(n)),
    'bigint': lambda n: [8 * (n - i) + 3 for i in range(n)],
    'str': lambda n: ['n%d' % i for i in range(n)],
}


def check_deep(DiGraph, n, shape, rng, stats, viol):
    """Graphs with simple paths of thousands of nodes."""
    edges = []
    if shape == 'chain':
        edges = [(i, i + 1) for i in range(n - 1)]
        want = []
    elif shape == 'ring':
        edges = [(i, (i + 1) % n) for i in range(n)]
        want = [frozenset(range(n))]
    elif shape == 'ring+tail':
        m = n // 2
        edges = [(i, (i + 1) % m) for i in range(m)] + \
            [(i, i + 1) for i in range(m - 1, n - 1)]
        want = [frozenset(range(m))]
    elif shape == 'rings':
        # a chain of rings of 50 nodes each
        want = []
        for a in range(0, n - 50, 50):
            edges += [(a + i, a + (i + 1) % 50) for i in range(50)]
            edges.append((a, a + 50))
            want.append(frozenset(range(a, a + 50)))
        a = (n - 50) // 50 * 50
        edges += [(a + i, a + i + 1) for i in range(n - a - 1)]
    else:   # ladder: 0<->1->2<->3->...->0 : one component
        for i in range(0, n - 1, 2):
            edges += [(i, i + 1), (i + 1, i)]
            edges.append((i + 1, (i + 2) % n))
        if n % 2:
            edges.append((n - 1, 0))
        want = [frozenset(range(n))]
    mode = rng.choice(['id', 'plain', 'ideq'])
    order = list(range(n))
    if rng.random() < 0.5:
        rng.shuffle(order)
    if mode == 'plain':
        objs = list(range(n))
        g = DiGraph([objs[i] for i in order], make_hashable=None)
        key = (lambda x: x)
    else:
        objs = [ID_MODES[mode](i) for i in range(n)]
        g = DiGraph([objs[i] for i in order])
        key = id
    adj = {}
    for a, b in edges:
        adj.setdefault(a, []).append(b)
    for i in order:
        g.add_neighbors(objs[i], [objs[j] for j in adj.get(i, [])])
    idx = {key(o): i for i, o in enumerate(objs)}
    stats['sccs_calls'] += 1
    stats['deep_graphs'] = stats.get('deep_graphs', 0) + 1
    desc = {'deep': shape, 'n': n, 'mode': mode}
    try:
        got = [frozenset(idx[key(o)] for o in c) for c in g.sccs()]
    except BaseException as e:
        viol.append({'rule': 'sccs-raises', 'mech': 'sccs-raises-' +
                     type(e).__name__,
                     'detail': dict(desc, err=repr(e)[:200])})
        return
    if sorted(map(sorted, got)) != sorted(map(sorted, want)):
        viol.append({'rule': 'sccs-wrong', 'mech': 'sccs-wrong',
                     'detail': dict(desc, got=len(got), want=len(want),
                                    sizes=sorted(len(c) for c in got)[:6])})
    if want:
        stats['nontrivial'] += 1


def run_case(case):
    from zope.testrunner.digraph import DiGraph
    import ztr_monitor
    stats = {'sccs_calls': 0, 'nontrivial': 0, 'graphs': 0}
    viol = []
    kind = case['kind']
    sample = None
    if kind in ('enum', 'sample4'):
        if kind == 'enum':
            n = case['n']
            masks = range(case['lo'], case['hi'])
        else:
            n = 4
            rng = random.Random(case['seed'])
            masks = [rng.randrange(1 << 16) for _ in range(case['count'])]
        orders = list(itertools.permutations(range(n)))
        for mask in masks:
            edges = [(a, b) for a in range(n) for b in range(n)
                     if mask >> (a * n + b) & 1]
            for oi, order in enumerate(orders):
                if kind == 'sample4' and oi % 6 != mask % 6:
                    continue
                stats['graphs'] += 1
                for mode, lab in (('id', 'int'), ('plain', 'int'),
                                  ('plain', 'bigint'), ('plain', 'str'),
                                  ('ideq', 'int'), ('idlist', 'int'),
                                  ('idhostile', 'int')):
                    if mode == 'plain' and lab != 'int' and \
                            (mask + oi) % 3 != 0:
                        continue
                    if mode in ('idlist', 'idhostile') and \
                            (mask + oi) % 4 != 0:
                        continue
                    if mode == 'ideq' and (mask + oi) % 2 != 0:
                        continue
                    desc = {'n': n, 'mask': mask, 'order': list(order),
                            'mode': mode, 'labels': lab}
                    check_graph(DiGraph, LABELSETS[lab](n), edges, order,
                                mode, stats, viol, desc)
                    if (mask + oi) % 3 == 1:
                        check_graph(DiGraph, LABELSETS[lab](n), edges, order,
                                    mode, stats, viol, desc,
                                    proto=mask * 31 + oi)
                    if (mask + oi) % 5 == 0:
                        check_graph(DiGraph, LABELSETS[lab](n), edges, order,
                                    mode, stats, viol,
                                    dict(desc, skip_sink_call=True),
                                    skip_sink_call=True)
                    if (mask + oi) % 7 == 0:
                        check_graph(DiGraph, LABELSETS[lab](n), edges, order,
                                    mode, stats, viol,
                                    dict(desc, unknown=True), unknown=True)
            if len(viol) > 50:
                break
        sample = {'kind': kind, 'n': n, 'first_mask': masks[0] if masks else 0,
                  'orders': len(orders)}
    elif kind == 'random':
        rng = random.Random(case['seed'])
        for _ in range(case['count']):
            n = rng.randint(5, 40)
            dens = rng.choice([0.02, 0.05, 0.1, 0.3])
            edges = [(a, b) for a in range(n) for b in range(n)
                     if rng.random() < dens]
            order = list(range(n))
            rng.shuffle(order)
            mode = rng.choice(['id', 'plain', 'ideq', 'idlist', 'idhostile'])
            stats['graphs'] += 1
            desc = {'n': n, 'edges': edges if n < 12 else len(edges),
                    'order': order if n < 12 else None, 'mode': mode,
                    'seed': case['seed']}
            check_graph(DiGraph, list(range(n)), edges, order, mode, stats,
                        viol, desc, skip_sink_call=rng.random() < 0.3,
                        unknown=rng.random() < 0.3,
                        proto=rng.randrange(1 << 30)
                        if rng.random() < 0.5 else None)
        sample = {'kind': 'random', 'seed': case['seed']}
    elif kind == 'deep':
        rng = random.Random(case['seed'])
        for n in case['sizes']:
            for shape in ('chain', 'ring', 'ring+tail', 'rings', 'ladder'):
                check_deep(DiGraph, n, shape, rng, stats, viol)
        sample = {'kind': 'deep', 'sizes': case['sizes']}
    elif kind == 'real':
        return run_real(case)
    # the in-run contract must have agreed as well
    for name, detail in ztr_monitor.VIOLATIONS:
        viol.append({'rule': 'contract:' + name, 'mech': 'sccs-wrong',
                     'detail': detail})
    stats['contract_evals'] = ztr_monitor.COUNTERS.get('eval.sccs', 0)
    return {'viol': viol[:20], 'evals': stats['sccs_calls'],
            'distinct_count': stats['nontrivial'], 'counters': stats,
            'sample': sample}


def run_real(case):
    """Real cyclic garbage through stopTest's cycle report."""
    import runcase
    import vworld
    import ztr_monitor
    rng = random.Random(case['seed'])
    viol = []
    stats = {'real_runs': 0, 'real_cycle_reports': 0, 'sccs_calls': 0,
             'nontrivial': 0}
    sample = None
    for k in range(case['count']):
        prefix = 'vwg%d_%d' % (case['seed'], k)
        tests = []
        expected = {}
        for ti in range(rng.randint(1, 4)):
            n = rng.randint(1, 5)
            edges = [(a, b) for a in range(n) for b in range(n)
                     if rng.random() < 0.35]
            comps, cyclic, cross = want_components(list(range(n)), edges)
            name = 'test_%d' % ti
            tests.append({'name': name, 'kind': 'pass', 'actions': [
                {'ph': 'body', 'do': 'garbage', 'n': n, 'edges': edges,
                 'tag': 't%d' % ti}]})
            expected[name] = (len(cyclic), n, edges, bool(cyclic and cross))
        spec = {'prefix': prefix, 'layers_module': prefix + '_layers',
                'layers': [],
                'modules': [{'name': prefix + '_m.tests',
                             'file': prefix + '_m/tests.py',
                             'suite': {'t': 'suite', 'ch': [
                                 {'t': 'class', 'name': 'TestG',
                                  'tests': tests}]}}]}
        root = vworld.materialise(spec)
        try:
            before = ztr_monitor.COUNTERS.get('eval.sccs', 0)
            nviol = len(ztr_monitor.VIOLATIONS)
            r = runcase.run_inproc(
                ['--path', root, '--gc-after-test', '-vvvv'],
                os.path.join(root, 'world.json'),
                os.path.join(root, 'trace.jsonl'), purge=(prefix,))
            stats['real_runs'] += 1
            stats['sccs_calls'] += ztr_monitor.COUNTERS.get(
                'eval.sccs', 0) - before
            if r.raised is not None:
                viol.append({'rule': 'real-run-raised', 'mech': 'real-raise',
                             'detail': {'tb': r.raised_tb[-800:],
                                        'spec': spec}})
                continue
            for name, detail in ztr_monitor.VIOLATIONS[nviol:]:
                viol.append({'rule': 'contract:' + name, 'mech': 'sccs-wrong',
                             'detail': dict(detail, spec=spec)})
            # parse the cycle report
            out = r.out
            blocks = out.split('The following test left cyclic garbage '
                               'behind:\n')
            got = {}
            for b in blocks[1:]:
                lines = b.split('\n')
                tname = lines[0].split(' ')[0]
                ncyc = 0
                for ln in lines[1:]:
                    if ln.startswith('Cycle '):
                        ncyc += 1
                    elif ln.startswith(' * ') or ln.startswith('   '):
                        continue
                    else:
                        break
                got[tname] = ncyc
                stats['real_cycle_reports'] += 1
            for name, (ncyc, n, edges, nontriv) in expected.items():
                if nontriv:
                    stats['nontrivial'] += 1
                if got.get(name, 0) != ncyc:
                    viol.append({'rule': 'cycle-report-count',
                                 'mech': 'cycle-report-count',
                                 'detail': {'test': name, 'want': ncyc,
                                            'got': got.get(name, 0),
                                            'n': n, 'edges': edges}})
            sample = {'kind': 'real', 'tests': {k: v[:3] for k, v in
                                                expected.items()}}
        finally:
            vworld.destroy(root)
    return {'viol': viol[:20], 'evals': stats['real_runs'],
            'distinct_count': stats['nontrivial'], 'counters': stats,
            'sample': sample}
