"""C03 - exactly the selected tests run, once each, and every mode agrees
(--list-tests, sequential, -j N, resumed children)."""
import random

LEVEL = 'exploration'
RULE = ('worlds of 1-4 modules (tests packages, tests.py files, nested '
        'packages), suites nested to depth <=3 with layer/level declarations, '
        '1-4 layers (some with a NotImplementedError tearDown so later layers '
        'are resumed in children), outcome kinds pass/fail/error/skip; option '
        'vectors over -t/-m/--layer pattern lists (substrings of real ids, '
        'anchors, alternations, negations), --at-level/--all/--only-level, '
        '-u/-f, --repeat 1-3, --shuffle-seed. Every vector is run (a) '
        'sequentially, (b) with --list-tests, (c) with -j N (N in 1..k+1); '
        'facts: per-pid test.setUp events + layer state machine. Oracle: '
        'executed multiset == model x repeat, each in one pid per iteration '
        'under its own layer; list == model per layer and in execution order, '
        'list run produces no test/layer fact; all modes agree. Non-trivial = '
        'selection is a proper non-empty subset or >=2 layers run; distinct '
        'by (world shape, plan, options).')
ASSUMPTIONS = ['reference model vworld.expected_tests written from the '
               'statement; str(test) of the running interpreter',
               'decorator-skipped tests produce no fact and are compared in '
               'the listing only']
FLOORS = {'overlapping_package_cases': 10, 'list_runs_with_j': 20, 'seq_runs': 100, 'list_runs': 100, 'par_runs': 40,
          'tests_judged': 1500, 'proper_subset_cases': 60,
          'order_compared_layers': 150, 'resumed_child_cases': 10,
          'repeat_cases': 20}
BATCH_TIMEOUT = 400

KINDS = ('pass', 'pass', 'pass', 'pass', 'fail', 'error', 'skip_deco',
         'skip_body')


def batch_size(tier):
    return 5


def cases(tier, seed):
    rng = random.Random(seed * 7477 + 3)
    n = 700 if tier == 'quick' else 9000
    return [{'idx': i, 'wseed': rng.randrange(1 << 30)} for i in range(n)]


def gen_opts(rng, spec, tids, mods):
    import gen
    import vworld
    o = {}
    if rng.random() < 0.6:
        strs = [vworld.test_str(t) for t in tids]
        o['test'] = gen.random_patterns(rng, strs)
    if rng.random() < 0.3:
        o['module'] = gen.random_patterns(rng, mods, maxn=2)
    if rng.random() < 0.25:
        lnames = [ls['name'] for ls in spec['layers']]
        sub = rng.sample(lnames, rng.randint(1, len(lnames)))
        o['layer'] = [gen.re_escape(s) + '$' for s in sub]
        if rng.random() < 0.3:
            o['layer'].append('UnitTests')
    r = rng.random()
    if r < 0.15:
        o['at_level'] = rng.choice([0, 1, 2, 3])
    elif r < 0.25:
        o['all'] = True
    elif r < 0.32:
        o['only_level'] = rng.choice([1, 2])
    r = rng.random()
    if r < 0.08:
        o['unit'] = True
    elif r < 0.16:
        o['non_unit'] = True
    if rng.random() < 0.2:
        # -s: overlapping packages (a package and one of its sub-packages,
        # a package twice) must still select every test exactly once
        m = rng.choice(mods).split('.')
        top = m[0]
        # (the last component is the module file, everything before it
        # is a package directory)
        sub = '.'.join(m[:rng.randint(1, max(1, len(m) - 1))])
        o['package'] = rng.choice([[top, sub], [sub, top], [top, top],
                                   [sub], [top, sub, sub]])
    if rng.random() < 0.25:
        o['repeat'] = rng.randint(2, 3)
    if rng.random() < 0.35:
        o['shuffle_seed'] = rng.choice([0, 1, 42, 2 ** 31, rng.randrange(10 ** 6)])
    return o


def exec_order(events, model, skip_ids=()):
    """per pid: per layer: order of first test.setUp of every test."""
    per_layer = {}
    pid_of = {}
    for e in events:
        if e['k'] != 'test.setUp':
            continue
        tid = e['id']
        L = model.layer_of_test.get(tid)
        lst = per_layer.setdefault(L, [])
        if tid not in lst:
            lst.append(tid)
        pid_of.setdefault(tid, []).append(e['pid'])
    return per_layer, pid_of


def run_case(case):
    import common
    import gen
    import oracles
    import runcase
    import vworld
    rng = random.Random(case['wseed'])
    prefix = 'vws%d' % case['idx']
    layers = gen.random_layer_graph(rng, nmax=4, nmin=1, p_hook=0.75)
    spec = gen.nested_world(rng, prefix, layers=layers, nmods=(1, 4),
                            depth=(0, 3), levels=(None, None, 1, 2, 3),
                            kinds=KINDS, tests_per_class=(1, 4),
                            p_flat=0.25)
    broken = None
    if rng.random() < 0.2:
        # one more test module that cannot be loaded: it raises at import,
        # or leaves through sys.exit() the way a script without the
        # __name__ guard does - every other selected test still runs once,
        # in every mode, and the listing still lists them
        broken = rng.choice([
            {'what': 'raise', 'exc': 'ImportError'},
            {'what': 'raise', 'exc': 'SyntaxError'},
            {'what': 'sysexit', 'code': 0}, {'what': 'sysexit', 'code': 3}])
        spec['modules'].append({
            'name': '%s_zx.tests' % prefix, 'file': '%s_zx/tests.py' % prefix,
            'fault': broken, 'suite': {'t': 'suite', 'ch': []}})
    plan = {}
    if rng.random() < 0.5:
        plan = {'layers': {}}
        for ln in rng.sample([ls['name'] for ls in layers],
                             min(len(layers), rng.randint(1, 2))):
            plan['layers'][ln] = {'tearDown': 'nie'}
    tests = {tid: (ts, layer) for tid, ts, layer, lvl, m, node
             in vworld.iter_tests(spec)}
    tids = list(tests)
    mods = [m['name'] for m in spec['modules']]
    opts = gen_opts(rng, spec, tids, mods)
    model = oracles.LayerModel(spec, plan)
    # the classic parametrised test case: several instances of one class
    # for every method (equal to one another, same id(), told apart by
    # str() only) - each of them is a test of its own and runs once.
    # (only without -t patterns: the model filters by id-derived names)
    mult = {}
    if 'test' not in opts and rng.random() < 0.3:
        cands = []

        def walk(m, node, flat):
            if node['t'] == 'class':
                if not flat:
                    cands.append((m, node))
            else:
                for ch in node.get('ch', []):
                    walk(m, ch, bool(node.get('flat')))
        for m in spec['modules']:
            walk(m, m['suite'], False)
        if cands:
            m, node = rng.choice(cands)
            node['params'] = rng.choice([['utf-8', 'latin-1'],
                                         ['a', 'b', 'c']])
            for ts in node['tests']:
                mult['%s.%s.%s' % (m['name'], node['name'], ts['name'])] = \
                    len(node['params'])
    want = vworld.expected_tests(spec, opts)
    rep = opts.get('repeat') or 1
    nofact = {t for t, (ts, l) in tests.items() if ts['kind'] == 'skip_deco'}
    want_ids = {t for ts in want.values() for t in ts}
    want_exec = {t: rep * mult.get(t, 1) for t in want_ids
                 if t not in nofact}
    viol = []
    counters = {}
    root = vworld.materialise(spec)

    def C(k, n=1):
        counters[k] = counters.get(k, 0) + n

    def V(rule, mech, **d):
        d.update(opts=opts, plan=plan)
        viol.append({'rule': rule, 'mech': mech, 'detail': d})

    def judge_exec(w, mode, plan=plan):
        if w.raised is not None:
            V('run-aborted', 'run-raised', mode=mode,
              tb=(w.raised_tb or '')[-700:])
            return None
        ran = common.ran_counts(w.events, 'test.setUp')
        if ran != want_exec:
            V('executed-multiset-differs', 'selection-' + mode, mode=mode,
              extra={t: ran[t] for t in sorted(set(ran) - set(want_exec))[:4]},
              missing=sorted(set(want_exec) - set(ran))[:4],
              wrong_count={t: ran[t] for t in sorted(ran)
                           if t in want_exec and ran[t] != want_exec[t]})
        order, pid_of = exec_order(w.events, model)
        for tid, pids in pid_of.items():
            if len(set(pids)) > 1:
                V('test-ran-in-several-processes', 'selection-multi-pid',
                  mode=mode, test=tid, pids=sorted(set(pids)))
        v, st = oracles.layer_machine(w.events, spec, plan)
        for x in v[:3]:
            x['detail'].update(mode=mode, opts=opts, plan=plan)
            viol.append(x)
        viol.extend(w.cviol[:3])
        C('tests_judged', sum(ran.values()))
        return order

    try:
        # (a) sequential
        ws = common.run_world(spec, plan, opts, root=root)
        C('seq_runs')
        seq_order = judge_exec(ws, 'seq')
        parent = next((e['pid'] for e in ws.events
                       if e['k'] == 'run.enter'), None)
        if any(e['k'] == 'test.setUp' and e['pid'] != parent
               for e in ws.events):
            C('resumed_child_cases')
        # (b) listing
        # (a third of the listings are asked for together with -j N: the
        # parent of a parallel run lists, it spawns nothing)
        lopts = opts
        if rng.random() < 0.33:
            lopts = dict(opts, processes=rng.randint(2, 4))
            C('list_runs_with_j')
        wl = common.run_world(spec, plan, lopts, extra_argv=['--list-tests'],
                              root=root)
        C('list_runs')
        if wl.raised is not None:
            V('list-aborted', 'run-raised', tb=(wl.raised_tb or '')[-600:])
        else:
            bad = [e['k'] for e in wl.events
                   if e['k'].startswith(('test.', 'layer.'))]
            if bad:
                V('listing-ran-code', 'list-ran-code', kinds=sorted(set(bad)))
            listing = runcase.parse_listing(wl.out)
            got = {}
            dup = False
            for lname, tl in listing:
                if lname.endswith('.EmptyLayer') and not tl:
                    continue    # the fake first layer of a -j N parent
                if lname in got:
                    dup = True
                got.setdefault(lname, [])
                got[lname] += [vworld.id_from_str(s) for s in tl]
            if dup:
                V('layer-listed-twice', 'list-dup-layer',
                  layers=[l for l, _ in listing])
            if {k: sorted(v) for k, v in got.items()} != \
                    {k: sorted(t for t in v for _ in range(mult.get(t, 1)))
                     for k, v in want.items()}:
                V('listing-differs-from-model', 'list-set',
                  got={k: sorted(v)[:6] for k, v in got.items()},
                  want={k: sorted(v)[:6] for k, v in want.items()})
            elif seq_order is not None:
                for lname, tl in got.items():
                    lo = []
                    for t in tl:
                        if t not in nofact and t not in lo:
                            lo.append(t)
                    so = seq_order.get(model.short(lname), [])
                    C('order_compared_layers')
                    if lo != so:
                        V('list-order-differs-from-run-order', 'list-order',
                          layer=lname, listed=lo[:8], ran=so[:8])
        # (c) parallel
        k = len(want)
        if k >= 1 and rng.random() < (0.5 if k > 1 else 0.15):
            N = rng.randint(1, k + 1)
            wp = common.run_world(spec, plan, dict(opts, processes=N),
                                  root=root)
            C('par_runs')
            judge_exec(wp, 'par')
            if wp.raised is None and ws.raised is None and \
                    wp.verdict != ws.verdict:
                V('verdict-differs-between-modes', 'selection-verdict',
                  seq=ws.verdict, par=wp.verdict, N=N)
        # (d) a real process (sys.argv is the runner's own argument list)
        # in which every test rewrites sys.argv in place, with layers that
        # run in subprocesses afterwards
        if k >= 1 and rng.random() < 0.12:
            import copy
            p4 = copy.deepcopy(plan) if plan else {}
            for tid in tids:
                t = p4.setdefault('tests', {}).setdefault(tid, {})
                t['actions'] = list(t.get('actions') or []) + [
                    {'ph': 'body', 'do': 'mutate_argv'}]
            o4 = dict(opts)
            if rng.random() < 0.5 or not spec['layers']:
                o4['processes'] = 2
            else:
                for ls in spec['layers']:
                    p4.setdefault('layers', {}).setdefault(
                        ls['name'], {})['tearDown'] = 'nie'
            wc = common.run_world(spec, p4, o4, root=root, mode='cli')
            C('cli_argv_mutation_runs')
            if wc.rc not in (0, 1):
                V('run-aborted', 'run-raised', mode='cli',
                  tb=(wc.raised_tb or '')[-600:])
            else:
                judge_exec(wc, 'cli-argv', p4)
    finally:
        vworld.destroy(root)
    if rep > 1:
        C('repeat_cases')
    if mult:
        C('parametrised_instance_cases')
    if broken:
        C('worlds_with_an_unloadable_module')
        if broken['what'] == 'sysexit':
            C('worlds_with_a_module_that_exits_at_import')
    if opts.get('package'):
        C('package_cases')
        if len(set(opts['package'])) > 1:
            C('overlapping_package_cases')
    sig = None
    proper = 0 < len(want_ids) < len(tids)
    if proper:
        C('proper_subset_cases')
    if proper or len(want) >= 2:
        sig = [common.shape_of(spec), plan, opts]
    return {'viol': viol[:8], 'evals': 3, 'sig': sig, 'counters': counters,
            'sample': {'opts': opts, 'plan': plan, 'modules': mods,
                       'selected': len(want_ids), 'of': len(tids),
                       'layers_selected': sorted(want)}}
