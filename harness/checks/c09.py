"""C09 - nearest layer/level declaration wins; --at-level/--all/--only-level
and -u/-f as documented."""
import random

LEVEL = 'exploration'
RULE = ('(1) every declaration pattern on a nesting of depth 3 - each of '
        'the 4 positions declares layer in {none, A, B} and level in {none, '
        '1, 2, 3}: 20736 shapes, all of them in the thorough tier (1200 '
        'sampled in quick) - through --list-tests plus a 5-10% sample of '
        'real runs; (2) worlds of 1-3 modules whose test_suite() nests suites to depth <=3; '
        'each suite and each TestCase class independently declares layer in '
        '{none, one of <=3 layers, the unit layer} and level in {none, -1, 0, '
        '1, 2, 3}; option vectors over --at-level {-1,0,1,2,3,10} / --all / '
        '--only-level {0,1,2,5} x the 4 -u/-f combinations x with/without '
        '--layer. Each vector is run for real (facts: which test ran, under '
        'which set-up layer state) and with --list-tests; both must equal '
        'the nearest-declaration reference model. Non-trivial = a test has '
        '>=2 competing declarations on its path, or a level equal to the '
        'threshold +-1; distinct by (declaration shape, option vector).')
ASSUMPTIONS = ['reference model written from the property statement '
               '(vworld.expected_tests / iter_tests)',
               'layer attribution of executed tests comes from the layer '
               'state machine over setUp/tearDown facts and claims']
FLOORS = {'tests_judged': 2000, 'competing_decl_tests': 300,
          'boundary_level_tests': 300, 'list_runs': 200, 'real_runs': 200,
          'excluded_tests': 500}
BATCH_TIMEOUT = 300


def batch_size(tier):
    return 6


def all_shapes():
    """Every declaration pattern on a nesting of depth 3: each of the four
    positions (outer suite, middle suite, inner suite, TestCase class)
    declares layer in {none, A, B} and level in {none, 1, 2, 3}."""
    import itertools
    one = list(itertools.product([None, 'A', 'B'], [None, 1, 2, 3]))
    return list(itertools.product(one, repeat=4))      # 20736


def cases(tier, seed):
    rng = random.Random(seed * 6151 + 9)
    n = 1200 if tier == 'quick' else 12000
    out = [{'idx': i, 'wseed': rng.randrange(1 << 30),
            'nopts': 4 if tier == 'quick' else 6} for i in range(n)]
    shapes = list(range(20736))
    if tier == 'quick':
        shapes = rng.sample(shapes, 600)
    for i in range(0, len(shapes), 150):
        out.append({'part': 'enum', 'idx': 100000 + i,
                    'shapes': shapes[i:i + 150],
                    'wseed': rng.randrange(1 << 30),
                    'real_p': 0.1 if tier == 'quick' else 0.05})
    return out


def gen_opts(rng, spec):
    import vworld
    o = {}
    r = rng.random()
    if r < 0.45:
        o['at_level'] = rng.choice([-1, 0, 1, 2, 3, 10])
        if rng.random() < 0.25:
            o['all'] = True
    elif r < 0.55:
        o['all'] = True
    elif r < 0.8:
        o['only_level'] = rng.choice([0, 1, 2, 5, -1])
        if rng.random() < 0.3:
            o['all'] = True
        if rng.random() < 0.3:
            o['at_level'] = rng.choice([1, 3])
    uf = rng.randrange(4)
    if uf & 1:
        o['unit'] = True
    if uf & 2:
        o['non_unit'] = True
    if rng.random() < 0.35:
        lnames = [ls['name'] for ls in spec['layers']]
        sub = rng.sample(lnames, rng.randint(1, len(lnames)))
        pats = [vworld.layer_pattern(spec, s) for s in sub]
        if rng.random() < 0.3:
            pats.append('UnitTests')
        if rng.random() < 0.2:
            pats = ['!' + pats[0]]
        o['layer'] = pats
    # the same options in another order on the command line, or partly in
    # the script's defaults (which are read before the command line)
    if rng.random() < 0.5:
        o['_order'] = rng.randrange(1 << 20)
    if rng.random() < 0.3:
        ks = [k for k in ('at_level', 'all', 'only_level', 'unit',
                          'non_unit') if k in o]
        if ks:
            o['_defaults'] = rng.sample(ks, rng.randint(1, len(ks)))
    return o


def decl_stats(spec):
    """per test: number of declarations of layer / level on its path."""
    out = {}
    for m in spec['modules']:
        def walk(node, nl, nv, levels, flat=False):
            if node.get('layer') is not None:
                nl += 1
            if node.get('level') is not None:
                nv += 1
            if node['t'] == 'class':
                for t in node['tests']:
                    out['%s.%s.%s' % (m['name'], node['name'], t['name'])] = \
                        (nl + (1 if flat and t.get('ilayer') is not None
                               else 0),
                         nv + (1 if flat and t.get('ilevel') is not None
                               else 0))
            else:
                for ch in node.get('ch', []):
                    walk(ch, nl, nv, levels, bool(node.get('flat')))
        walk(m['suite'], 0, 0, [])
    return out


def run_enum(case):
    """Exhaustive declaration shapes through --list-tests (+ a sample of
    real runs)."""
    import common
    import oracles
    import runcase
    import vworld
    rng = random.Random(case['wseed'])
    shapes = all_shapes()
    viol = []
    counters = {}
    nt = 0

    def C(k, n=1):
        counters[k] = counters.get(k, 0) + n

    for sidx in case['shapes']:
        shape = shapes[sidx]
        prefix = 'vwe%d' % sidx
        node = {'t': 'class', 'name': 'TestC',
                'tests': [{'name': 'test_a', 'kind': 'pass'},
                          {'name': 'test_b', 'kind': 'pass'}]}
        (l3, v3) = shape[3]
        if l3:
            node['layer'] = l3
        if v3:
            node['level'] = v3
        for (l, v) in reversed(shape[:3]):
            node = {'t': 'suite', 'ch': [node]}
            if l:
                node['layer'] = l
            if v:
                node['level'] = v
        spec = {'prefix': prefix, 'layers_module': prefix + '_layers',
                'layers': [{'name': 'A', 'kind': 'class', 'bases': [],
                            'hooks': {'setUp': 'ok', 'tearDown': 'ok'}},
                           {'name': 'B', 'kind': 'inst', 'bases': ['A'],
                            'hooks': {'setUp': 'ok'}}],
                'modules': [{'name': prefix + '_p.tests.test_m',
                             'file': prefix + '_p/tests/test_m.py',
                             'suite': node}]}
        opts = rng.choice([{}, {'at_level': 2}, {'at_level': 3},
                           {'only_level': 2}, {'all': True},
                           {'at_level': 1, 'non_unit': True},
                           {'unit': True, 'at_level': 2}])
        want = vworld.expected_tests(spec, opts)
        root = vworld.materialise(spec)
        try:
            wl = common.run_world(spec, None, opts,
                                  extra_argv=['--list-tests'], root=root)
            C('list_runs')
            C('enum_shapes')
            if wl.raised is not None:
                viol.append({'rule': 'list-aborted', 'mech': 'run-raised',
                             'detail': {'shape': shape,
                                        'tb': (wl.raised_tb or '')[-500:]}})
                continue
            got = {}
            for lname, tests in runcase.parse_listing(wl.out):
                got.setdefault(lname, [])
                got[lname] += [vworld.id_from_str(x) for x in tests]
            if {k: sorted(v) for k, v in got.items()} != \
                    {k: sorted(v) for k, v in want.items()}:
                viol.append({'rule': 'listing-differs-from-model',
                             'mech': 'level-layer-listing',
                             'detail': {'shape': shape, 'opts': opts,
                                        'got': got, 'want': want}})
            ndecl_l = sum(1 for l, v in shape if l)
            ndecl_v = sum(1 for l, v in shape if v)
            if ndecl_l >= 2 or ndecl_v >= 2:
                nt += 1
                C('competing_decl_tests', 2)
            C('tests_judged', 2)
            C('excluded_tests', 2 - sum(len(v) for v in want.values()))
            C('boundary_level_tests', 2)
            if rng.random() < case['real_p']:
                w = common.run_world(spec, None, dict(opts, verbose=1),
                                     root=root)
                C('real_runs')
                if w.raised is None:
                    ran = common.ran_counts(w.events)
                    ids = sorted(t for ts in want.values() for t in ts)
                    if sorted(ran) != ids:
                        viol.append({'rule': 'executed-set-differs-from-model',
                                     'mech': 'level-layer-selection',
                                     'detail': {'shape': shape, 'opts': opts,
                                                'ran': sorted(ran)}})
                    v, st = oracles.layer_machine(w.events, spec)
                    for x in v[:2]:
                        x['detail'].update(shape=shape, opts=opts)
                        if x['rule'] == 'test-under-wrong-layers':
                            x['mech'] = 'nearest-layer-declaration'
                        viol.append(x)
        finally:
            vworld.destroy(root)
    return {'viol': viol[:8], 'evals': len(case['shapes']),
            'distinct_count': nt, 'counters': counters,
            'sample': {'part': 'enum', 'first_shape': shapes[case['shapes'][0]]}}


def run_case(case):
    if case.get('part') == 'enum':
        return run_enum(case)
    import common
    import gen
    import oracles
    import runcase
    import vworld
    rng = random.Random(case['wseed'])
    prefix = 'vwn%d' % case['idx']
    layers = gen.random_layer_graph(rng, nmax=3, nmin=1, p_hook=0.7)
    spec = gen.nested_world(rng, prefix, layers=layers, nmods=(1, 3),
                            depth=(0, 3), levels=(None, -1, 0, 1, 2, 3),
                            p_layer=0.45, p_level=0.45, p_flat=0.35)
    decl = decl_stats(spec)
    all_tests = {tid: (layer, level) for tid, ts, layer, level, m, node
                 in vworld.iter_tests(spec)}
    root = vworld.materialise(spec)
    viol = []
    counters = {}
    sigs = []

    def C(k, n=1):
        counters[k] = counters.get(k, 0) + n

    def count_flat(node, flat=False):
        if node['t'] == 'class':
            if flat:
                C('tests_in_flat_suites', len(node['tests']))
                C('instance_declared_tests', sum(
                    1 for t in node['tests'] if t.get('ilayer') is not None
                    or t.get('ilevel') is not None))
        else:
            for ch in node.get('ch', []):
                count_flat(ch, bool(node.get('flat')))
    for m in spec['modules']:
        count_flat(m['suite'])
    try:
        for _ in range(case['nopts']):
            opts = gen_opts(rng, spec)
            want = vworld.expected_tests(spec, opts)
            want_ids = sorted(t for ts in want.values() for t in ts)
            # ---- real run
            # a sixth of the real runs hand the layers to subprocesses (-j
            # N, or one after the other behind tear-downs that are not
            # supported): every subprocess finds its tests again by itself
            plan = None
            ropts = dict(opts, verbose=1)
            r = rng.random()
            if spec.get('layers') and r < 0.1:
                ropts['processes'] = rng.randint(2, 3)
                C('real_runs_in_parallel_subprocesses')
            elif spec.get('layers') and r < 0.17:
                plan = {'layers': {ls['name']: {'tearDown': 'nie'}
                                   for ls in spec['layers']}}
                C('real_runs_with_resumed_subprocesses')
            w = common.run_world(spec, plan, ropts, root=root)
            C('real_runs')
            if w.raised is not None:
                viol.append({'rule': 'run-aborted', 'mech': 'run-raised',
                             'detail': {'tb': (w.raised_tb or '')[-600:],
                                        'opts': opts}})
                continue
            ran = common.ran_counts(w.events)
            if sorted(ran) != want_ids or any(v != 1 for v in ran.values()):
                viol.append({
                    'rule': 'executed-set-differs-from-model',
                    'mech': 'level-layer-selection',
                    'detail': {'opts': opts,
                               'extra': sorted(set(ran) - set(want_ids))[:5],
                               'missing': sorted(set(want_ids) - set(ran))[:5],
                               'levels': {t: all_tests[t] for t in
                                          sorted(set(ran) ^ set(want_ids))[:5]}
                               }})
            v, st = oracles.layer_machine(w.events, spec, plan)
            for x in v:
                x['detail']['opts'] = opts
                if x['rule'] == 'test-under-wrong-layers':
                    x['mech'] = 'nearest-layer-declaration'
            viol += v[:3]
            viol += w.cviol[:3]
            # header blocks: each expected layer exactly once
            hdrs = [l['name'] for l in w.info['layers']]
            if sorted(hdrs) != sorted(want):
                viol.append({'rule': 'layer-headers-differ',
                             'mech': 'level-layer-headers',
                             'detail': {'opts': opts, 'got': hdrs,
                                        'want': sorted(want)}})
            # ---- listing
            wl = common.run_world(spec, None, opts,
                                  extra_argv=['--list-tests'], root=root)
            C('list_runs')
            if wl.raised is not None:
                viol.append({'rule': 'list-aborted', 'mech': 'run-raised',
                             'detail': {'tb': (wl.raised_tb or '')[-600:]}})
                continue
            listing = runcase.parse_listing(wl.out)
            got = {}
            for lname, tests in listing:
                got.setdefault(lname, [])
                got[lname] += [vworld.id_from_str(s) for s in tests]
            want_l = {k: sorted(v) for k, v in want.items()}
            got_l = {k: sorted(x for x in v if x) for k, v in got.items()}
            if got_l != want_l:
                viol.append({'rule': 'listing-differs-from-model',
                             'mech': 'level-layer-listing',
                             'detail': {'opts': opts, 'got': got_l,
                                        'want': want_l}})
            # ---- bookkeeping
            C('tests_judged', len(ran))
            C('excluded_tests', len(all_tests) - len(want_ids))
            thr = opts.get('only_level', opts.get('at_level', 1))
            nt = False
            for tid, (layer, level) in all_tests.items():
                nl, nv = decl.get(tid, (0, 0))
                if nl >= 2 or nv >= 2:
                    C('competing_decl_tests')
                    nt = True
                if thr is not None and abs(level - thr) <= 1:
                    C('boundary_level_tests')
                    nt = True
            if nt:
                sigs.append([common.shape_of(spec)[1], opts])
    finally:
        vworld.destroy(root)
    return {'viol': viol[:8], 'evals': case['nopts'] * 2,
            'sig': {'multi': sigs} if sigs else None, 'counters': counters,
            'sample': {'modules': [m['name'] for m in spec['modules']],
                       'decls': {t: all_tests[t] for t in list(all_tests)[:6]},
                       'last_opts': opts}}
