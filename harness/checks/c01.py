"""C01 - tests run with exactly their layer stack; layers nest; torn down
once; after a NotImplementedError tear-down the rest runs in fresh children."""
import json
import os
import random

LEVEL = 'fault_enumeration'
RULE = ('random layer DAGs (<=6 layers, class and instance layers, multiple '
        'inheritance, every hook independently absent) x tests per layer x '
        'fault plans (0-3 of: setUp raises, tearDown raises, tearDown raises '
        'NotImplementedError; every single-fault placement of each sampled '
        'graph is enumerated) x options (--layer subsets, -x, --repeat, '
        '--shuffle, -j N); the recorded trace of every process is replayed '
        'through the layer state machine. Non-trivial = >=2 layers related '
        'by a base edge and >=1 test event judged; distinct by (graph, '
        'kinds, hooks, fault plan, options).')
ASSUMPTIONS = ['facts come from the world\'s own hooks (client boundary); '
               'claims (formatter calls) are used only for layers without '
               'that hook',
               'O_APPEND single-write trace lines are atomic']
FLOORS = {'test_events_judged': 300, 'judged_with_bases': 100,
          'setups': 200, 'teardowns': 200, 'fault_cases': 20,
          'nie_cases': 5}
BATCH_TIMEOUT = 240


def batch_size(tier):
    return 10


def gen_world(rng, idx):
    import gen
    prefix = 'vwl%d' % idx
    layers = gen.random_layer_graph(rng, nmax=6, nmin=2, p_edge=0.45,
                                    p_hook=0.75)
    r = rng.random()
    if r < 0.2:
        # three bases, two of them with a common base, one unrelated root
        layers = gen.diamond_family(rng, p_hook=0.75)
    elif r < 0.4:
        # a layer on two roots and siblings on one of them
        layers = gen.mi_sibling_family(rng, p_hook=0.75)
    twins = False
    if r >= 0.4 and r < 0.5:
        # two different base layer objects with one name
        layers = gen.twin_base_family(rng)
        twins = True
    tbl = {}
    for ls in layers:
        if ls.get('pyname'):
            continue        # (tests are grouped by layer name: unique ones)
        if rng.random() < (0.95 if twins else 0.8):
            tbl[ls['name']] = [
                {'name': 'test_%d' % i,
                 'kind': 'fail' if rng.random() < 0.1 else 'pass'}
                for i in range(rng.randint(1, 3))]
    if rng.random() < 0.4:
        tbl[None] = [{'name': 'test_u%d' % i, 'kind': 'pass'}
                     for i in range(rng.randint(1, 2))]
    if not tbl:
        tbl[layers[-1]['name']] = [{'name': 'test_0', 'kind': 'pass'}]
    return gen.simple_world(prefix, layers, tbl)


FAULTS = [('setUp', 'raise:ValueError'), ('tearDown', 'raise:KeyError'),
          ('tearDown', 'nie'), ('setUp', 'raise:NeedsArgs'),
          ('setUp', 'raise:NotImplementedError')]


def cases(tier, seed):
    import vworld
    rng = random.Random(seed * 7919 + 1)
    out = []
    nworlds = 100 if tier == 'quick' else 900
    idx = 0
    for w in range(nworlds):
        idx += 1
        spec = gen_world(rng, idx)
        lnames = [ls['name'] for ls in spec['layers']]
        plans = [{}]
        # every single-fault placement
        singles = [(ln, h, b) for ln in lnames for (h, b) in FAULTS[:3]]
        if tier == 'quick':
            singles = rng.sample(singles, min(len(singles), 4))
        for ln, h, b in singles:
            plans.append({'layers': {ln: {h: b}}})
        for _ in range(2 if tier == 'quick' else 6):
            p = {}
            for _k in range(rng.randint(2, 3)):
                ln = rng.choice(lnames)
                h, b = rng.choice(FAULTS)
                p.setdefault(ln, {})[h] = b
            plans.append({'layers': p})
        # correlated faults along a base edge: the derived layer and one of
        # its bases both misbehave (every pair of fault kinds in thorough)
        edges = [(ls['name'], b) for ls in spec['layers']
                 for b in ls.get('bases', []) if b != 'UNIT']
        if edges:
            combos = [(fd, fb) for fd in FAULTS for fb in FAULTS]
            if tier == 'quick':
                combos = rng.sample(combos, 3)
            for fd, fb in combos:
                d, b = rng.choice(edges)
                plans.append({'layers': {d: {fd[0]: fd[1]},
                                         b: {fb[0]: fb[1]}}})
        for plan in plans:
            opts = {}
            r = rng.random()
            if r < 0.25:
                sub = rng.sample(lnames, rng.randint(1, len(lnames)))
                opts['layer'] = [vworld.layer_pattern(spec, s)
                                 for s in sub]
            if rng.random() < 0.2:
                opts['stop'] = True
            if rng.random() < 0.25:
                opts['repeat'] = rng.randint(2, 3)
            if rng.random() < 0.25:
                opts['shuffle_seed'] = rng.randint(0, 99)
            if rng.random() < (0.06 if tier == 'quick' else 0.1):
                opts['processes'] = rng.randint(2, 4)
            if rng.random() < 0.3:
                opts['verbose'] = rng.randint(1, 2)
            # options of other features that wrap the run (tracing,
            # profiling, gc settings) must not change how layers are handled
            extra = []
            r = rng.random()
            if r < 0.1:
                extra = ['--coverage', 'COVDIR']
            elif r < 0.14:
                extra = ['--gc', '0', '-G', 'DEBUG_STATS']
            elif r < 0.18:
                extra = ['--profile', 'cProfile', '--profile-directory',
                         'ROOT']
            out.append({'spec': spec, 'plan': plan, 'opts': opts,
                        'extra': extra})
    return out


def run_case(case):
    import oracles
    import runcase
    import vworld
    spec, plan, opts = case['spec'], case['plan'], case['opts']
    root = vworld.materialise(spec)
    viol = []
    try:
        plan_path = os.path.join(root, 'plan.json')
        with open(plan_path, 'w') as f:
            json.dump(plan, f)
        r = runcase.run_inproc(
            ['--path', root] + vworld.opts_to_argv(opts) + [
                {'COVDIR': os.path.join(root, 'cov-out'),
                 'ROOT': root}.get(x, x) for x in case.get('extra') or []],
            os.path.join(root, 'world.json'),
            os.path.join(root, 'trace.jsonl'), plan=plan_path,
            purge=(spec['prefix'],))
        events = r.events
    finally:
        vworld.destroy(root)
    if r.raised is not None:
        viol.append({'rule': 'run-raised', 'mech': 'run-raised-' +
                     type(r.raised).__name__,
                     'detail': {'tb': r.raised_tb[-700:], 'opts': opts,
                                'plan': plan}})
        return {'viol': viol, 'evals': 1, 'counters': {'raised': 1}}
    v, st = oracles.layer_machine(events, spec, plan)
    for x in v:
        x['detail'].update(opts=opts, plan=plan)
    viol += v
    import common
    viol += common.contract_viols(events)[:3]
    model = oracles.LayerModel(spec, plan)
    parent = next((e['pid'] for e in events if e['k'] == 'run.enter'), None)
    lf = plan.get('layers') or {}
    nie_layers = {ln for ln, h in lf.items() if h.get('tearDown') == 'nie'}
    su_fail = {ln for ln, h in lf.items()
               if str(h.get('setUp', '')).startswith('raise')}
    counters = dict(st)
    counters['fault_cases'] = 1 if lf else 0
    counters['nie_cases'] = 1 if st['nie_teardowns'] else 0
    # --- after a non-optional NotImplementedError tear-down in the parent,
    #     remaining layers run in fresh children, one at a time
    nie_t = None
    for e in events:
        if e['pid'] == parent and e['k'] == 'layer.tearDown.exit' and \
                e.get('exc') == 'NotImplementedError':
            nie_t = e['seq']
            break
    child_layers = {}
    for e in events:
        if e['k'] == 'test.body' and e['pid'] != parent:
            L = model.layer_of_test.get(e['id'])
            child_layers.setdefault(e['pid'], set()).add(L)
    for pid, ls in child_layers.items():
        if len(ls) > 1:
            viol.append({'rule': 'child-runs-several-layers',
                         'mech': 'layer-child-several',
                         'detail': {'pid': pid, 'layers': sorted(ls)}})
    counters['child_pids'] = len(child_layers)
    if not opts.get('processes') and len(child_layers) > 1:
        spans = []
        for pid in child_layers:
            ts = [e['t'] for e in events if e['pid'] == pid]
            spans.append((min(ts), max(ts), pid))
        spans.sort()
        for a, b in zip(spans, spans[1:]):
            if b[0] < a[1]:
                viol.append({'rule': 'resumed-children-overlap',
                             'mech': 'layer-resume-overlap',
                             'detail': {'a': a, 'b': b}})
    # --- every test whose layers can be set up still runs (no -x)
    if not opts.get('stop'):
        want = vworld.expected_tests(spec, opts)
        rep = opts.get('repeat') or 1
        ran = {}
        for e in events:
            if e['k'] == 'test.body':
                ran[e['id']] = ran.get(e['id'], 0) + 1
        for lname, tids in want.items():
            short = model.short(lname)
            if model.closure(short) & su_fail:
                continue
            for tid in tids:
                counters['expected_ran_checked'] = \
                    counters.get('expected_ran_checked', 0) + 1
                if ran.get(tid, 0) != rep:
                    viol.append({'rule': 'test-not-run-as-expected',
                                 'mech': 'layer-test-lost',
                                 'detail': {'test': tid, 'ran': ran.get(tid, 0),
                                            'want': rep, 'opts': opts,
                                            'plan': plan}})
    sig = None
    has_base = any(ls.get('bases') for ls in spec['layers'])
    if has_base and st['test_events_judged']:
        sig = [[(ls['name'], ls['kind'], ls['bases'], sorted(ls['hooks']))
                for ls in spec['layers']], plan, opts]
    return {'viol': viol[:10], 'evals': 1, 'sig': sig, 'counters': counters,
            'sample': {'layers': [(ls['name'], ls['kind'], ls['bases'])
                                  for ls in spec['layers']],
                       'plan': plan, 'opts': opts,
                       'events': len(events), 'states': st['states']}}
