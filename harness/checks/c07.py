"""C07 - subprocess result channel: nothing lost, nothing partial trusted, no
hang."""
import base64
import json
import os
import random
import re

LEVEL = 'fault_enumeration'
RULE = ('(i) real -j children crashed at every crash point of a skeleton '
        '(module import, each layer setUp/tearDown, each test '
        'setUp/body/tearDown, the report) x {os._exit 0/3, SIGKILL, '
        'SIGSEGV, KeyboardInterrupt, SystemExit(0/7) escaping from a layer '
        'hook}; (ii) the real report of a child cut at EVERY byte offset '
        '(reports with 0, 1, 3 names exhaustively; 50 names sampled in '
        'quick, exhaustive in thorough); (iii) a scripted fake child '
        'spawned by the real parent (run_internal script_parts): well-formed '
        'reports from an emulator of process.py validated against bytes of '
        'real children, 0/1/1000/5000 names, Unicode / 10 kB / '
        'space-laden names, leading noise, CRLF and padded headers, header '
        'look-alikes before/after the report, two headers, no report, '
        'fewer names than announced, unterminated last name, >=1 MiB on '
        'stdout and/or stderr in every order of writing and closing the two '
        'pipes, exit 0 / 3 / SIGKILL / SIGSEGV; (iv) spawn failures (vanished '
        'cwd, non-existent and non-executable interpreter, EAGAIN/ENOMEM on '
        'the n-th Popen). Oracle: the parent terminates (watchdog = '
        'inconclusive unless reproduced 3/3); for complete reports its '
        'totals and failure/error name multisets equal what the child sent; '
        'otherwise the layer has an error entry and the verdict is failed. '
        'Non-trivial = the parent\'s reader got past spawn; distinct by '
        'scenario.')
ASSUMPTIONS = ['a cut that loses only the final newline of the report loses '
               'no data: either outcome is accepted',
               'the emulator of the report format is validated on every run '
               'against real children (traces_validated_against_impl)']
FLOORS = {'crash_cases': 40, 'cut_offsets': 150, 'fake_wellformed': 60,
          'fake_malformed': 40, 'big_volume_cases': 12, 'spawn_failures': 8,
          'emulator_validated': 4, 'names_compared': 2000,
          'chatter_threads_released': 8,
          'banner_print_raised_in_worker_thread': 3}
BATCH_TIMEOUT = 900

HERE = os.path.dirname(os.path.abspath(__file__))
SITE = os.path.join(os.path.dirname(HERE), 'site')
FAKE = os.path.join(SITE, 'ztr_fake_child.py')
FAKE_PARENT = os.path.join(SITE, 'ztr_fake_parent.py')


def batch_size(tier):
    return 4


def b64(s):
    if isinstance(s, str):
        s = s.encode('utf-8', 'surrogateescape')
    return base64.b64encode(s).decode('ascii')


def emulate_report(ran, fails, errs, nskip):
    """What process.SubProcess.report() writes (written from its source)."""
    out = ''
    if nskip:
        out += 'skipped %d\n' % nskip
    out += '%d %d %d\n' % (ran, len(fails), len(errs))
    for n in list(fails) + list(errs):
        out += ' '.join(n.strip().splitlines()) + '\n'
    return out


def cases(tier, seed):
    rng = random.Random(seed * 9199 + 7)
    out = []
    quick = tier == 'quick'
    # (i) crashes
    for i in range(12 if quick else 120):
        out.append({'part': 'crash', 'idx': i, 'wseed': rng.randrange(1 << 30)})
    # (ii) report cut: names -> offsets (None = all)
    for names, nchunks in ((0, 1), (1, 5), (3, 14)):
        for c in range(nchunks):
            out.append({'part': 'cutscan', 'names': names, 'idx': names,
                        'chunk': (c, nchunks)})
    if quick:
        for c in range(4):
            out.append({'part': 'cutscan', 'names': 50, 'idx': 50,
                        'sample': 40, 'wseed': 12345, 'chunk': (c, 4)})
    else:
        for chunk in range(24):
            out.append({'part': 'cutscan', 'names': 50, 'idx': 50,
                        'chunk': (chunk, 24)})
    # (iii) fake children
    for i in range(96 if quick else 1600):
        out.append({'part': 'fake', 'idx': i, 'wseed': rng.randrange(1 << 30)})
    for i in range(14 if quick else 120):
        out.append({'part': 'fakebig', 'idx': i,
                    'wseed': rng.randrange(1 << 30)})
    # (iv) spawn failures
    for i in range(10 if quick else 60):
        out.append({'part': 'spawn', 'idx': i, 'wseed': rng.randrange(1 << 30)})
    for i in range(6 if quick else 60):
        out.append({'part': 'realnames', 'idx': i,
                    'wseed': rng.randrange(1 << 30)})
    for i in range(10 if quick else 80):
        out.append({'part': 'chatter', 'idx': i,
                    'wseed': rng.randrange(1 << 30)})
    for i in range(5):
        out.append({'part': 'validate', 'idx': i,
                    'wseed': rng.randrange(1 << 30)})
    if not quick:
        for i in range(5, 12):
            out.append({'part': 'validate', 'idx': i,
                        'wseed': rng.randrange(1 << 30)})
    return out


# ------------------------------------------------------------------ helpers

def two_layer_world(prefix, nfail, nerr=0, nskip=0, npass=1):
    import gen
    layers = [{'name': 'La', 'kind': 'class', 'bases': [],
               'hooks': {'setUp': 'ok', 'tearDown': 'ok'}},
              {'name': 'Lb', 'kind': 'class', 'bases': [],
               'hooks': {'setUp': 'ok', 'tearDown': 'ok'}}]
    ta = [{'name': 'test_f%02d' % i, 'kind': 'fail'} for i in range(nfail)]
    ta += [{'name': 'test_e%02d' % i, 'kind': 'error'} for i in range(nerr)]
    ta += [{'name': 'test_s%02d' % i, 'kind': 'skip_body'}
           for i in range(nskip)]
    ta += [{'name': 'test_p%02d' % i, 'kind': 'pass'} for i in range(npass)]
    tb = [{'name': 'test_b0', 'kind': 'pass'},
          {'name': 'test_b1', 'kind': 'fail'}]
    return gen.simple_world(prefix, layers, {'La': ta, 'Lb': tb})


def parent_view(w):
    """What the parent recorded: totals + name lists."""
    return {'total': w.info['total'],
            'fails': sorted(w.info['failures_list'] or []),
            'errs': sorted(w.info['errors_list'] or []),
            'verdict': w.verdict}


def sub_err(layer_full):
    return 'subprocess for %s' % layer_full


class Ctx:
    def __init__(self):
        self.viol = []
        self.counters = {}

    def C(self, k, n=1):
        self.counters[k] = self.counters.get(k, 0) + n

    def V(self, rule, mech, **d):
        if len(self.viol) < 8:
            self.viol.append({'rule': rule, 'mech': mech, 'detail': d})


# -------------------------------------------------------------- (i) crashes

def run_crash(case, ctx):
    import common
    import vworld
    rng = random.Random(case['wseed'])
    prefix = 'vwq%d' % case['idx']
    spec = two_layer_world(prefix, nfail=1, nerr=0, nskip=0, npass=2)
    tids = [t for t, *_ in vworld.iter_tests(spec)]
    points = ['mod.import:' + spec['modules'][0]['name'], 'report']
    for ln in ('La', 'Lb'):
        points += ['layer.setUp:' + ln, 'layer.tearDown:' + ln]
    for t in tids:
        for ph in ('setUp', 'body', 'tearDown'):
            points.append('test.%s:%s' % (ph, t))
    root = vworld.materialise(spec)
    sigs = []
    try:
        for pt in rng.sample(points, 5):
            hows = ['exit0', 'exit3', 'SIGKILL', 'SIGSEGV', 'kbint']
            if pt.startswith('layer.'):
                # SystemExit escapes from a layer hook (inside a test
                # unittest turns it into an ordinary error)
                hows += ['sysexit', 'sysexit0', 'sysexit0']
            how = rng.choice(hows)
            plan = {'crash': {'at': pt, 'how': how}}
            w = common.run_world(spec, plan, {'processes': 2, 'verbose': 1},
                                 root=root)
            ctx.C('crash_cases')
            crashed = [e for e in w.events if e['k'] == 'crash']
            if w.raised is not None:
                ctx.V('parent-aborted', 'channel-parent-raised', point=pt,
                      how=how, tb=(w.raised_tb or '')[-600:])
                continue
            if not crashed:
                continue
            pv = parent_view(w)
            sub = [e for e in pv['errs'] if e.startswith('subprocess for')]
            if pv['verdict'] is not True or not sub:
                ctx.V('dead-child-not-recorded-as-error',
                      'channel-child-death-ignored', point=pt, how=how,
                      view=pv, out=w.out[-500:])
            sigs.append(['crash', pt.split(':')[0], how])
    finally:
        vworld.destroy(root)
    return sigs


# ------------------------------------------------------- (ii) cut the report

def run_cutscan(case, ctx):
    import common
    import vworld
    names = case['names']
    prefix = 'vwr%d' % names
    nerr = names // 3
    spec = two_layer_world(prefix, nfail=names - nerr, nerr=nerr,
                           nskip=1 if names in (1, 50) else 0, npass=1)
    la = spec['layers_module'] + '.La'
    root = vworld.materialise(spec)
    sigs = []
    try:
        # reference run: full report, learn its length and content
        ref = common.run_world(spec, None, {'processes': 2, 'verbose': 1},
                               root=root,
                               env_extra={'ZTR_REPORT_CUT': 10 ** 9,
                                          'ZTR_REPORT_CUT_LAYER': la})
        cut = [e for e in ref.events if e['k'] == 'report.cut']
        if ref.raised is not None or not cut:
            ctx.V('reference-run-failed', 'harness-cut-reference',
                  tb=(ref.raised_tb or '')[-400:])
            return sigs
        total = cut[0]['total']
        refview = parent_view(ref)
        offsets = list(range(0, total + 1))
        if case.get('sample'):
            rng = random.Random(case['wseed'])
            offsets = sorted(set(rng.sample(offsets, case['sample']) +
                                 [0, 1, total - 1, total]))
        if case.get('chunk'):
            c, n = case['chunk']
            offsets = offsets[c::n]
        for k in offsets:
            w = common.run_world(spec, None, {'processes': 2, 'verbose': 1},
                                 root=root,
                                 env_extra={'ZTR_REPORT_CUT': k,
                                            'ZTR_REPORT_CUT_LAYER': la})
            ctx.C('cut_offsets')
            if w.raised is not None:
                ctx.V('parent-aborted', 'channel-parent-raised', cut=k,
                      total=total, tb=(w.raised_tb or '')[-600:])
                continue
            pv = parent_view(w)
            lost = total - k
            sub = sub_err(la) in pv['errs']
            if lost >= 2:
                if not sub or pv['verdict'] is not True:
                    ctx.V('cut-report-accepted', 'channel-truncated-report',
                          cut=k, total=total, names=names, view=pv)
                # nothing partial trusted: every listed name is a real one
                bogus = [n for n in pv['fails'] + pv['errs']
                         if n not in refview['fails'] + refview['errs'] and
                         not n.startswith('subprocess for')]
                if bogus:
                    ctx.V('partial-name-listed', 'channel-partial-name',
                          cut=k, bogus=bogus[:3])
            elif not sub:
                # complete data: must equal the reference
                if (pv['total'], pv['fails'], pv['errs']) != (
                        refview['total'], refview['fails'], refview['errs']):
                    ctx.V('complete-report-misread', 'channel-data-differs',
                          cut=k, total=total, view=pv, ref=refview)
            ctx.C('names_compared', len(pv['fails']) + len(pv['errs']))
            sigs.append(['cut', names, k])
    finally:
        vworld.destroy(root)
    return sigs


# ---------------------------------------------------------- (iii) fake child

NAME_POOL = ['test_x (pkg.tests.T.test_x)', 'test_é (pkg.T.test_é)',
             'test_雪 (m.T.test_雪)', 'Layer: pkg.layers.L.setUp',
             '/path/to/doc file.txt', 'a  b   c', 'x' * 10000,
             'test (m.T) (i=3, j=\'q\')', 'Doctest: pkg.mod.func']


def gen_fake_layer(rng, kind, ascii_names=False):
    """Returns (steps, exit/signal dict, expectation dict)."""
    nf = rng.choice([0, 0, 1, 2, 3])
    ne = rng.choice([0, 0, 1, 2])
    if kind == 'many':
        nf, ne = rng.choice([(1000, 0), (0, 1000), (2500, 2500), (5000, 1)])
    pool = [n for n in NAME_POOL if n.isascii()] if ascii_names \
        else NAME_POOL
    fails = ['%s #f%d' % (rng.choice(pool), i) for i in range(nf)]
    errs = ['%s #e%d' % (rng.choice(pool), i) for i in range(ne)]
    ran = nf + ne + rng.randint(0, 50)
    nskip = rng.choice([0, 0, 2, 17])
    report = emulate_report(ran, fails, errs, nskip)
    exp = {'ran': ran, 'fails': fails, 'errs': errs, 'nskip': nskip,
           'complete': True, 'kind': kind}
    pre = ''
    post = ''
    end = {'exit': rng.choice([0, 1])}
    steps = []
    if kind == 'leading-noise':
        pre = rng.choice(['warning: something\n', 'a b c\n1 2\n',
                          'Traceback (most recent call last):\n  x\n',
                          '\n\n\n', '1 2 x\n', '١ ٢ ٣\n', '1.0 2 3\n',
                          # lines that only BEGIN like a header
                          '7 0 0 widgets processed\n',
                          '2026 09 29 12:00:01 started\n', '3 1 1x\n',
                          '12 0 0\t(cache hits, misses, evictions)\n'])
    elif kind == 'header-variants':
        lines = report.split('\n')
        i = 1 if nskip else 0
        lines[i] = rng.choice(['  %s  ', '%s\r', '\t%s', '%s   '])\
            % lines[i]
        report = '\n'.join(lines)
    elif kind == 'lookalike-before':
        pre = rng.choice(['0 0 0\n', '7 0 0\n', ' 3 1 1 \n'])
        exp['lookalike'] = 'before'
    elif kind == 'lookalike-after':
        post = rng.choice(['0 0 0\n', '9 9 9\n'])
    elif kind == 'trailing-noise':
        # what interpreter shutdown adds after the report (atexit hooks,
        # "Exception ignored in", logging at exit)
        post = rng.choice(['Exception ignored in: <function f at 0x1>\n',
                           'bye\n', 'a b c\n', 'x\n' * 40, '\n\n',
                           'unterminated tail'])
    elif kind == 'glued-noise':
        # an unterminated line on the real stderr right before the report
        pre = rng.choice(['no newline at end', 'warning: x ', '12'])
        exp['glued'] = True
    elif kind == 'no-report-nonascii':
        report = rng.choice(['Speicherzugriffsfehler \u2013 caf\xe9\n',
                             '\u81f4\u547d\u9519\u8bef: core dumped\n'])
        exp['complete'] = False
        exp['kind'] = 'no-report'
        end = rng.choice([{'exit': 0}, {'exit': 3}, {'signal': 9},
                          {'signal': 11}])
    elif kind == 'no-report':
        report = rng.choice(['', 'segmentation fault\n', 'x y z\n', '1 2\n',
                             '1 2 3 4\n',
                             'Speicherzugriffsfehler \u2013 caf\xe9\n',
                             '\u81f4\u547d\u9519\u8bef: core dumped\n'])
        exp['complete'] = False
        end = rng.choice([{'exit': 0}, {'exit': 3}, {'signal': 9},
                          {'signal': 11}])
    elif kind == 'fewer-names':
        if nf + ne == 0:
            fails = ['test_only (m.T.test_only)']
            exp['fails'] = fails
            report = emulate_report(ran, fails, errs, nskip)
        lines = report.split('\n')[:-1]
        drop = rng.randint(1, len(fails) + len(errs))
        report = '\n'.join(lines[:-drop]) + '\n'
        exp['complete'] = False
        end = rng.choice([{'exit': 0}, {'exit': 3}, {'signal': 9}])
    elif kind == 'unterminated-name':
        if nf + ne == 0:
            fails = ['test_only (m.T.test_only)']
            exp['fails'] = fails
            report = emulate_report(ran, fails, errs, nskip)
        cut = rng.randint(2, 12)
        report = report[:-cut]
        exp['complete'] = False
        end = rng.choice([{'exit': 0}, {'signal': 9}])
    elif kind == 'cut-in-multibyte':
        # the report ends inside a multi-byte character of the last name
        fails = fails + ['test_\xe9t\xe9 (pkg.T.test_\xe9t\xe9) #last']
        exp['fails'] = fails
        errs = []
        exp['errs'] = errs
        raw = emulate_report(ran, fails, errs, nskip).encode('utf-8')
        k = raw.rindex('\xe9'.encode('utf-8')) + 1
        report = raw[:k]
        exp['complete'] = False
        end = rng.choice([{'exit': 0}, {'signal': 9}])
    elif kind == 'latin1-report':
        # a child whose streams are not UTF-8 (PYTHONIOENCODING=latin-1)
        fails = fails + ['test_caf\xe9 (pkg.T.test_caf\xe9) #l1']
        exp['fails'] = fails
        report = emulate_report(ran, fails, errs, nskip).encode('latin-1',
                                                                'replace')
        exp['fuzzy_names'] = True
    elif kind == 'cr-in-name':
        fails = ['test_cr (m.T.test_cr)\rsecond line'] + fails
        exp['fails'] = fails
        report = emulate_report(ran, fails, errs, nskip)
        exp['cr'] = True
    # stdout content: nothing / dot lines / ordinary output
    so = rng.choice(['', '.\n' * rng.randint(1, 30),
                     'Running x tests:\n  Ran 3 tests with 0 failures, 0 '
                     'errors and 0 skipped in 0.001 seconds.\n'])
    order = rng.choice(['out-err', 'err-out', 'mixed'])
    wr_out = {'fd': 1, 'data': b64(so)}
    if isinstance(report, bytes):
        pre, post = pre.encode('utf-8'), post.encode('utf-8')
    wr_err = {'fd': 2, 'data': b64(pre + report + post)}
    if order == 'out-err':
        steps = [wr_out, {'close': 1}, wr_err, {'close': 2}]
    elif order == 'err-out':
        steps = [wr_err, {'close': 2}, wr_out, {'close': 1}]
    else:
        steps = [{'fd': 2, 'data': b64(pre)}, wr_out,
                 {'fd': 2, 'data': b64(report + post)}]
    return steps, end, exp


FAKE_KINDS = ['wellformed', 'wellformed', 'leading-noise', 'header-variants',
              'lookalike-before', 'lookalike-after', 'no-report',
              'trailing-noise', 'glued-noise', 'cut-in-multibyte',
              'latin1-report',
              'fewer-names', 'unterminated-name', 'many', 'cr-in-name']


def judge_fake(ctx, w, exps, lm, label):
    """exps: {layer short: expectation}"""
    if w.raised is not None:
        ctx.V('parent-aborted', 'channel-parent-raised', label=label,
              tb=(w.raised_tb or '')[-600:])
        return
    pv = parent_view(w)
    want_f, want_e = [], []
    ran = skipped = 0
    all_complete = True
    any_lookalike = any(e.get('lookalike') for e in exps.values())
    any_cr = any(e.get('cr') for e in exps.values())
    any_glued = any(e.get('glued') for e in exps.values())
    for short, e in exps.items():
        full = '%s.%s' % (lm, short)
        if e['complete']:
            norm = lambda n: ' '.join(n.strip().splitlines())  # noqa
            want_f += [norm(n) for n in e['fails']]
            want_e += [norm(n) for n in e['errs']]
            ran += e['ran']
            skipped += e['nskip']
            ctx.C('fake_wellformed')
        else:
            all_complete = False
            ctx.C('fake_malformed')
            if sub_err(full) not in pv['errs'] or pv['verdict'] is not True:
                ctx.V('incomplete-report-not-an-error',
                      'channel-incomplete-report-' + e['kind'], layer=short,
                      view={k: (v if k != 'fails' and k != 'errs'
                                else v[:4]) for k, v in pv.items()},
                      label=label)
    got_f = pv['fails']
    got_e = [n for n in pv['errs'] if not n.startswith('subprocess for')]
    if any(e.get('fuzzy_names') for e in exps.values()):
        # names from a child with another encoding cannot come through
        # character for character: compare them with every non-ASCII
        # character masked
        def mask(names):
            return sorted(re.sub(r'[^\x00-\x7f]', '?', n) for n in names)
        want_f, want_e = mask(want_f), mask(want_e)
        got_f, got_e = mask(got_f), mask(got_e)
    ctx.C('names_compared', len(got_f) + len(got_e))
    mech = None
    if sorted(want_f) != got_f or sorted(want_e) != sorted(got_e):
        mech = 'channel-names-differ'
    elif pv['total'] is not None and all_complete:
        t, f, e, s = pv['total']
        if (t, f, e, s) != (ran, len(want_f), len(want_e), skipped):
            mech = 'channel-totals-differ'
    want_bad = bool(want_f or want_e or not all_complete)
    if mech is None and pv['verdict'] != want_bad:
        mech = 'channel-verdict-differs'
    if mech:
        if any_lookalike:
            mech = 'channel-header-lookalike-noise'
        elif any_glued and (pv['verdict'] is True or glued_skip_lost(
                pv, exps, ran, want_f, want_e, skipped) or (
                    mech == 'channel-totals-differ' and
                    tuple(pv['total'][1:3]) == (len(want_f), len(want_e)))):
            # the first line of the report is glued to the partial line and
            # no longer parses: either the header ('Could not communicate'
            # for a complete run) or the 'skipped N' line in front of it
            # (that layer's skipped count is lost, everything else right);
            # a partial line that ends in digits changes the number it is
            # glued to ("12" + "26 0 0": 1226 tests ran)
            mech = 'channel-unterminated-noise-glued-to-header'
        elif any_cr:
            mech = 'channel-name-with-carriage-return'
        ctx.V('parent-record-differs-from-what-child-sent', mech,
              label=label, kinds={k: v['kind'] for k, v in exps.items()},
              got={'total': pv['total'], 'fails': got_f[:4],
                   'errs': got_e[:4], 'verdict': pv['verdict']},
              want={'ran': ran, 'nfails': len(want_f), 'nerrs': len(want_e),
                    'skipped': skipped, 'fails': sorted(want_f)[:4],
                    'errs': sorted(want_e)[:4]})


def glued_skip_lost(pv, exps, ran, want_f, want_e, skipped):
    if pv['total'] is None:
        return False
    t, f, e, s = pv['total']
    lost = sum(x['nskip'] for x in exps.values() if x.get('glued'))
    return (lost > 0 and (t, f, e) == (ran, len(want_f), len(want_e)) and
            skipped - lost <= s < skipped)


def fake_world(prefix, k):
    import gen
    layers = [{'name': 'L%d' % i, 'kind': 'class', 'bases': [],
               'hooks': {}} for i in range(k)]
    tbl = {ls['name']: [{'name': 'test_0', 'kind': 'pass'}] for ls in layers}
    return gen.simple_world(prefix, layers, tbl)


def run_fake(case, ctx):
    import common
    import vworld
    rng = random.Random(case['wseed'])
    prefix = 'vwf%d' % case['idx']
    k = rng.randint(1, 3)
    spec = fake_world(prefix, k)
    lm = spec['layers_module']
    root = vworld.materialise(spec)
    sigs = []
    try:
        scenario = {}
        exps = {}
        # three in ten runs: the parent's own stdout / stderr have a
        # narrow strict encoding (run_internal() entered by an embedding
        # program under the C locale): printing a banner that quotes what
        # the child wrote raises - in the layer's worker thread.  Names are
        # kept ASCII there, so nothing the main thread prints can raise.
        strict = rng.random() < 0.3
        for i in range(k):
            kind = rng.choice(FAKE_KINDS)
            if strict:
                # (kinds whose names come out of the pool)
                kind = rng.choice(['no-report', 'no-report', 'leading-noise',
                                   'trailing-noise', 'fewer-names',
                                   'unterminated-name', 'header-variants'])
            if strict and i == 0:
                kind = 'no-report-nonascii'
            steps, end, exp = gen_fake_layer(rng, kind, ascii_names=strict)
            d = {'steps': steps}
            d.update(end)
            scenario['%s.L%d' % (lm, i)] = d
            exps['L%d' % i] = exp
        sp = os.path.join(root, 'scenario.json')
        with open(sp, 'w') as f:
            json.dump(scenario, f)
        N = rng.randint(2, k + 1)
        w = common.run_world(spec, None, {'processes': N,
                                          'verbose': rng.choice([1, 1, 2])},
                             root=root, script_parts=[FAKE],
                             env_extra={'ZTR_FAKE_SCENARIO': sp,
                                        'ZTR_STRICT_STDOUT':
                                        '1' if strict else None})
        if strict:
            ctx.C('strict_parent_streams_runs')
            if 'UnicodeEncodeError' in w.out:
                ctx.C('banner_print_raised_in_worker_thread')
        judge_fake(ctx, w, exps, lm, 'fake-strict' if strict else 'fake')
        sigs.append(['fake', sorted(e['kind'] for e in exps.values()), N])
    finally:
        vworld.destroy(root)
    return sigs


def run_fakebig(case, ctx):
    """>= 1 MiB on stdout and/or stderr, every order; CLI with watchdog."""
    import common
    import vworld
    rng = random.Random(case['wseed'])
    prefix = 'vwF%d' % case['idx']
    spec = fake_world(prefix, 2)
    lm = spec['layers_module']
    root = vworld.materialise(spec)
    sigs = []
    try:
        fails = ['test_big (m.T.test_big)']
        report = emulate_report(7, fails, [], 0)
        line = ('n' * 199 + '\n')
        big = {'data': b64(line), 'repeat': 6000}    # 1.2 MB
        which = case['idx'] % 7
        if which == 0:
            steps = [dict(big, fd=1), dict(big, fd=2)]
        elif which == 1:
            steps = [dict(big, fd=2), dict(big, fd=1)]
        elif which == 2:
            steps = [dict(big, fd=2), {'close': 2}, dict(big, fd=1)]
        elif which == 3:
            steps = [dict(big, fd=1), {'close': 1}, dict(big, fd=2)]
        elif which == 4:
            steps = [{'close': 1}, dict(big, fd=2)]
        elif which == 5:
            steps = [dict(big, fd=1, repeat=20000)]
        else:
            steps = []
            for _ in range(40):
                steps += [dict(big, fd=1, repeat=150),
                          dict(big, fd=2, repeat=150)]
        closed2 = any(s.get('close') == 2 for s in steps)
        exp = {'ran': 7, 'fails': fails, 'errs': [], 'nskip': 0,
               'complete': not closed2, 'kind': 'big-%d' % which}
        if not closed2:
            steps.append({'fd': 2, 'data': b64(report)})
        scenario = {'%s.L0' % lm: {'steps': steps, 'exit': 1},
                    '%s.L1' % lm: {'steps': [
                        {'fd': 2, 'data': b64(emulate_report(1, [], [], 0))}],
                        'exit': 0}}
        exps = {'L0': exp, 'L1': {'ran': 1, 'fails': [], 'errs': [],
                                  'nskip': 0, 'complete': True,
                                  'kind': 'wellformed'}}
        sp = os.path.join(root, 'scenario.json')
        with open(sp, 'w') as f:
            json.dump(scenario, f)
        hung = 0
        w = None
        ee = {'ZTR_FAKE_SCENARIO': sp}
        if case['idx'] % 2 == 0:
            # one transient error while the parent reads the big child's
            # stdout: it reports it and goes on draining the pipe - a child
            # that still has more than a pipe buffer to write would block
            # for ever otherwise
            ee['ZTR_READ_FAIL'] = '1:%d:%s' % (
                1 + case['idx'] % 5, ['EIO', 'EAGAIN'][case['idx'] // 2 % 2])
            ctx.C('big_volume_cases_with_a_transient_read_error')
        for attempt in range(3):
            w = common.run_world(spec, None, {'processes': 2, 'verbose': 1},
                                 root=root, mode='cli', launcher=FAKE_PARENT,
                                 env_extra=ee, timeout=90)
            if not w.timed_out:
                break
            hung += 1
        ctx.C('big_volume_cases')
        if hung == 3:
            ctx.V('parent-hangs', 'channel-parent-hang', which=which,
                  err=w.err[-600:])
        elif hung:
            return None
        else:
            judge_fake(ctx, w, exps, lm, 'big-%d' % which)
        sigs.append(['fakebig', which])
    finally:
        vworld.destroy(root)
    return sigs


# -------------------------------------------------------- (iv) spawn failure

def run_spawn(case, ctx):
    import shutil
    import sys
    import common
    import vworld
    rng = random.Random(case['wseed'])
    prefix = 'vwp%d' % case['idx']
    spec = two_layer_world(prefix, nfail=0, npass=1)
    spec['modules'][1]['suite']['ch'][0]['tests'][1]['kind'] = 'pass'
    root = vworld.materialise(spec)
    how = ['eagain', 'enomem', 'noexe', 'notexec', 'cwd-gone'][case['idx'] % 5]
    sigs = []
    saved_exe = sys.executable
    try:
        env = {}
        pre = None
        if how in ('eagain', 'enomem'):
            env['ZTR_SPAWN_FAIL'] = '%s%d:%s' % (
                rng.choice(['', 'layer#']), rng.randint(1, 2), how.upper())
        elif how == 'noexe':
            def pre():
                sys.executable = os.path.join(root, 'no-such-python')
        elif how == 'notexec':
            def pre():
                p = os.path.join(root, 'not-executable')
                open(p, 'w').write('#!/bin/sh\n')
                os.chmod(p, 0o644)
                sys.executable = p
        run_cwd = None
        if how == 'cwd-gone':
            # the directory the children are to be started in has vanished
            run_cwd = os.path.join(root, 'gone-dir')
        w = common.run_world(spec, None, {'processes': 2, 'verbose': 1},
                             root=root, env_extra=env, pre=pre,
                             run_cwd=run_cwd)
        sys.executable = saved_exe
        ctx.C('spawn_failures')
        if w.raised is not None:
            ctx.V('parent-aborted-on-spawn-failure',
                  'channel-spawn-failure-raised', how=how,
                  tb=(w.raised_tb or '')[-600:])
        else:
            pv = parent_view(w)
            sub = [e for e in pv['errs'] if e.startswith('subprocess for')]
            started_layers = {e.get('layer') for e in w.events
                              if e['k'] == 'spawn'}
            never = [e for e in w.events if e['k'] == 'spawn.fail' and
                     e.get('layer') not in started_layers]
            if how in ('eagain', 'enomem') and not never:
                # a later attempt started the child after all: nothing
                # was lost (only reachable if the code retries)
                ctx.C('spawn_failures_recovered')
            elif pv['verdict'] is not True or not sub:
                ctx.V('spawn-failure-not-recorded',
                      'channel-spawn-failure-ignored', how=how, view=pv,
                      out=w.out[-500:])
        sigs.append(['spawn', how])
    finally:
        sys.executable = saved_exe
        vworld.destroy(root)
    return sigs


# -------------------------------------------------- emulator vs real children

def run_validate(case, ctx):
    """Bytes written by real children == emulator output."""
    import subprocess
    import runcase
    import truth
    import vworld
    rng = random.Random(case['wseed'])
    prefix = 'vwe%d' % case['idx']
    nf, ne, ns = rng.randint(0, 3), rng.randint(0, 2), rng.randint(0, 2)
    spec = two_layer_world(prefix, nfail=nf, nerr=ne, nskip=ns, npass=1)
    root = vworld.materialise(spec)
    sigs = []
    try:
        la = spec['layers_module'] + '.La'
        env = runcase.base_env({'ZTR_WORLD': os.path.join(root, 'world.json'),
                                'ZTR_TRACE': os.path.join(root, 't.jsonl')})
        p = subprocess.run([runcase.VENV_PY, runcase.LAUNCHER,
                            '--resume-layer', la, '1', '--path', root],
                           env=env, capture_output=True, timeout=120,
                           cwd=root)
        mod = spec['modules'][0]['name']
        fails = ['test_f%02d (%s.TestLa.test_f%02d)' % (i, mod, i)
                 for i in range(nf)]
        errs = ['test_e%02d (%s.TestLa.test_e%02d)' % (i, mod, i)
                for i in range(ne)]
        want = emulate_report(nf + ne + ns + 1, fails, errs, ns)
        got = p.stderr.decode('utf-8', 'replace')
        if not got.endswith(want):
            ctx.V('emulator-disagrees-with-real-child',
                  'harness-emulator-mismatch', want=want[-300:],
                  got=got[-300:])
        else:
            ctx.C('emulator_validated')
        sigs.append(['validate', nf, ne, ns])
    finally:
        vworld.destroy(root)
    return sigs


HOSTILE_NAMES = ['test_cr\rx', 'test_crlf\r\nx', 'test_vt\x0bx',
                 'test_ff\x0cx', 'test_ls\u2028x', 'test_nel\x85x',
                 'test_nl\nx', 'test_tab\tx', 'test_  two spaces',
                 'test_\u96ea', 'test_' + 'long' * 800, 'test_trail  ']


def run_realnames(case, ctx):
    """Real children whose failing tests have hostile names."""
    import common
    import gen
    import vworld
    rng = random.Random(case['wseed'])
    prefix = 'vwN%d' % case['idx']
    layers = [{'name': 'La', 'kind': 'class', 'bases': [], 'hooks': {}},
              {'name': 'Lb', 'kind': 'class', 'bases': [], 'hooks': {}}]
    names = rng.sample(HOSTILE_NAMES, rng.randint(2, 5))
    ta = [{'name': n, 'kind': rng.choice(['fail', 'error'])} for n in names]
    ta.append({'name': 'test_ok', 'kind': 'pass'})
    spec = gen.simple_world(prefix, layers, {
        'La': ta, 'Lb': [{'name': 'test_b', 'kind': 'pass'}]})
    w = common.run_world(spec, None, {'processes': 2, 'verbose': 1})
    ctx.C('real_hostile_name_runs')
    if w.raised is not None:
        ctx.V('parent-aborted', 'channel-parent-raised',
              tb=(w.raised_tb or '')[-600:])
        return [['realnames', names]]
    pv = parent_view(w)
    mod = spec['modules'][0]['name']

    def squash(s):
        return ' '.join(s.split())
    want_f = sorted(squash('%s (%s.TestLa.%s)' % (t['name'], mod, t['name']))
                    for t in ta if t['kind'] == 'fail')
    want_e = sorted(squash('%s (%s.TestLa.%s)' % (t['name'], mod, t['name']))
                    for t in ta if t['kind'] == 'error')
    got_f = sorted(squash(n) for n in pv['fails'])
    got_e = sorted(squash(n) for n in pv['errs'])
    ctx.C('names_compared', len(got_f) + len(got_e))
    if got_f != want_f or got_e != want_e or pv['verdict'] is not True:
        mech = 'channel-names-differ'
        if any(c in n for n in names for c in '\r\x0b\x0c\u2028\x85'):
            mech = 'channel-name-with-line-break-character'
        ctx.V('parent-record-differs-from-what-child-sent', mech,
              names=names, got={'fails': got_f[:4], 'errs': got_e[:4],
                                'total': pv['total']},
              want={'fails': want_f[:4], 'errs': want_e[:4]})
    return [['realnames', sorted(names)]]


def run_chatter(case, ctx):
    """Real children with a worker thread that keeps logging to sys.stderr
    (whatever that is at the moment) from the layer's tearDown on, i.e. also
    while the subprocess winds down and writes its report."""
    import common
    import gen
    import vworld
    rng = random.Random(case['wseed'])
    prefix = 'vwC%d' % case['idx']
    line = rng.choice(['worker: still alive\n', '1 0 0\n', 'x y\n',
                       '0 0 0\n', 'heartbeat 17\n'])
    go_in = rng.choice(['tearDown', 'tearDown', 'last_test'])
    hooks = {'setUp': {'beh': 'ok', 'actions': [
        {'ph': 'body', 'do': 'stderr_chatter', 'text': line,
         'for_s': rng.choice([0.15, 0.3])}]},
        'tearDown': {'beh': 'ok', 'actions': [
            {'ph': 'body', 'do': 'stderr_chatter_go'}]}}
    layers = [{'name': 'La', 'kind': 'class', 'bases': [], 'hooks': hooks},
              {'name': 'Lb', 'kind': 'class', 'bases': [],
               'hooks': {'setUp': 'ok', 'tearDown': 'ok'}}]
    nf, ne = rng.randint(1, 4), rng.randint(0, 2)
    ta = [{'name': 'test_f%02d' % i, 'kind': 'fail'} for i in range(nf)]
    ta += [{'name': 'test_e%02d' % i, 'kind': 'error'} for i in range(ne)]
    ta += [{'name': 'test_p0', 'kind': 'pass'}]
    if go_in == 'last_test':
        ta.append({'name': 'test_zlast', 'kind': 'pass', 'actions': [
            {'ph': 'tearDown', 'do': 'stderr_chatter_go'}]})
    tb = [{'name': 'test_b0', 'kind': 'pass'},
          {'name': 'test_b1', 'kind': 'fail'}]
    spec = gen.simple_world(prefix, layers, {'La': ta, 'Lb': tb})
    w = common.run_world(spec, None, {'processes': 2, 'verbose': 1},
                         mode=rng.choice(['in', 'cli']))
    ctx.C('chatter_runs')
    if w.raised is not None:
        ctx.V('parent-aborted', 'channel-parent-raised',
              tb=(w.raised_tb or '')[-600:])
        return [['chatter', line]]
    if not any(e['k'] == 'chatter.go' for e in w.events):
        return [['chatter', line]]
    ctx.C('chatter_threads_released')
    pv = parent_view(w)
    ma, mb = spec['modules'][0]['name'], spec['modules'][1]['name']
    want_f = sorted(['test_f%02d (%s.TestLa.test_f%02d)' % (i, ma, i)
                     for i in range(nf)] +
                    ['test_b1 (%s.TestLb.test_b1)' % mb])
    want_e = sorted('test_e%02d (%s.TestLa.test_e%02d)' % (i, ma, i)
                    for i in range(ne))
    want_total = (len(ta) + 2, nf + 1, ne)
    ctx.C('names_compared', len(want_f) + len(want_e))
    if pv['fails'] != want_f or pv['errs'] != want_e or \
            pv['verdict'] is not True or \
            (pv['total'] or (None,))[:3] != want_total:
        ctx.V('parent-record-differs-from-what-child-sent',
              'channel-thread-writes-to-sys-stderr-during-report',
              line=line, got=pv, want={'fails': want_f, 'errs': want_e,
                                       'total': want_total},
              out=w.out[-500:])
    return [['chatter', line, go_in, nf, ne]]


def run_case(case):
    ctx = Ctx()
    fn = {'crash': run_crash, 'realnames': run_realnames,
          'chatter': run_chatter, 'cutscan': run_cutscan, 'fake': run_fake,
          'fakebig': run_fakebig, 'spawn': run_spawn,
          'validate': run_validate}[case['part']]
    sigs = fn(case, ctx)
    if sigs is None:
        return {'inconclusive': 'watchdog fired but hang not reproduced 3/3',
                'counters': ctx.counters}
    traces = ctx.counters.get('emulator_validated', 0)
    return {'viol': ctx.viol, 'evals': max(1, len(sigs)),
            'sig': {'multi': sigs} if sigs else None,
            'counters': ctx.counters,
            'sample': {'part': case['part'], 'first': sigs[:2]},
            'traces_validated': traces}


def summarize(results, cases):
    n = sum(int((r.get('counters') or {}).get('emulator_validated', 0))
            for r in results if not r.get('died'))
    return {'traces_validated_against_impl': n}
