"""C06 - -j N runs equal sequential runs; output ordered per layer; at most
N alive; up to N make progress together."""
import itertools
import os
import random
import re

LEVEL = 'exploration'
RULE = ('worlds with k in 2..3 (quick) / 2..4 (+ sampled 5, thorough) '
        'independent layers, each with tests that print unique token lines '
        'and some failing tests; -j N for N in 1..k+1; EVERY finish '
        'permutation of the k children that is feasible for N (all k! when '
        'N >= k) is forced with file barriers inside the children (a child '
        'holds until the parent thread has completely finished the layer '
        'that must finish before it; marker written by the parent-side '
        'Popen proxy), x hold point {a test body between token lines, layer '
        'tearDown, before the report} x verbosity 0..3 (Deferred / '
        'Keepalive collectors; N = 1 with NotImplementedError tear-downs '
        'gives the Immediate collector) x seeded sys.monitoring LINE yield '
        'injection in the parent\'s subprocess threads. Oracle: (a) '
        'executed multiset, verdict and failure/error name multisets equal '
        'the sequential run; (b) stdout splits into exactly one block per '
        'layer, in sequential layer order, each block holding all tokens of '
        'its layer and no other; (c) alive children <= N (proxy counter and '
        'proc.start/exit intervals); (d) the first min(N,k) children all '
        'reach their first test before any of them is allowed to go on '
        '(barrier times out otherwise). The evidence lists the finish '
        'orders observed by reap order. Non-trivial = >=2 children whose '
        'lifetimes overlapped; distinct by (k, N, permutation, hold point, '
        'verbosity).')
ASSUMPTIONS = ['children are independent OS processes: every completion order '
               'is physically possible, forcing one does not manufacture an '
               'impossible schedule',
               'order of names inside "Tests with failures/errors" is not '
               'compared (completion order)']
FLOORS = {'par_runs': 90, 'forced_permutations_observed': 60,
          'blocks_checked': 250, 'tokens_checked': 800,
          'overlapping_runs': 50, 'alive_samples': 250,
          'arrival_barriers_passed': 60, 'yield_lines': 2000,
          'transient_read_errors': 15, 'tests_with_several_events': 25,
          'runs_with_an_unimportable_module': 10}
BATCH_TIMEOUT = 900


def batch_size(tier):
    return 2


def feasible(perm, N):
    """Can the children finish in this order when at most N run?"""
    k = len(perm)
    unfinished = list(range(k))
    for x in perm:
        if x not in unfinished[:N]:
            return False
        unfinished.remove(x)
    return True


def cases(tier, seed):
    rng = random.Random(seed * 2707 + 6)
    out = []
    ks = (2, 3) if tier == 'quick' else (2, 3, 4)
    idx = 0
    for k in ks:
        for N in range(1, k + 2):
            perms = [p for p in itertools.permutations(range(k))
                     if N == 1 or feasible(p, N)]
            if N == 1:
                perms = [tuple(range(k))]
            for perm in perms:
                holds = ['body', 'tearDown', 'report', 'report.stderr']
                if N == 1:
                    holds = ['body']
                for hold in holds:
                    vs = [rng.choice([0, 1]), rng.choice([2, 3])]
                    if tier == 'thorough':
                        vs = [0, 1, 2, 3]
                    for v in vs:
                        idx += 1
                        out.append({'idx': idx, 'k': k, 'N': N,
                                    'perm': list(perm), 'hold': hold,
                                    'verbose': v,
                                    'yseed': rng.randrange(1 << 30),
                                    'wseed': rng.randrange(1 << 30)})
    if tier == 'quick':
        for _ in range(16):
            idx += 1
            k = 4
            N = rng.randint(2, 5)
            while True:
                perm = rng.sample(range(k), k)
                if feasible(perm, N):
                    break
            out.append({'idx': idx, 'k': k, 'N': N, 'perm': perm,
                        'hold': rng.choice(['body', 'tearDown', 'report',
                                            'report.stderr']),
                        'verbose': rng.randint(0, 3),
                        'yseed': rng.randrange(1 << 30),
                        'wseed': rng.randrange(1 << 30)})
    if tier == 'thorough':
        for _ in range(120):
            idx += 1
            k = 5
            N = rng.randint(2, 6)
            while True:
                perm = rng.sample(range(k), k)
                if feasible(perm, N):
                    break
            out.append({'idx': idx, 'k': k, 'N': N, 'perm': perm,
                        'hold': rng.choice(['body', 'tearDown', 'report',
                                            'report.stderr']),
                        'verbose': rng.randint(0, 3),
                        'yseed': rng.randrange(1 << 30),
                        'wseed': rng.randrange(1 << 30)})
    # a layer that keeps chattering (hundreds of quick tests = a steady
    # stream of keep-alive dots) while a short layer finishes and a third
    # one waits for the free slot
    for _ in range(4 if tier == 'quick' else 16):
        idx += 1
        out.append({'idx': idx, 'chatty': True, 'k': 3, 'N': 2,
                    'perm': [1, 2, 0], 'hold': 'none',
                    'verbose': rng.choice([2, 2, 3, 1]),
                    'yseed': rng.randrange(1 << 30),
                    'wseed': rng.randrange(1 << 30)})
    # a layer whose subprocess cannot be started (EAGAIN / ENOMEM on every
    # attempt): the other layers' blocks are printed all the same, complete
    # and in order
    for _ in range(10 if tier == 'quick' else 120):
        idx += 1
        k = rng.randint(3, 4)
        out.append({'idx': idx, 'spawnfail': True, 'k': k,
                    'N': rng.randint(2, k), 'perm': list(range(k)),
                    'hold': 'none', 'fail': rng.randint(1, k - 1),
                    'verbose': rng.randint(0, 3),
                    'yseed': rng.randrange(1 << 30),
                    'wseed': rng.randrange(1 << 30)})
    # a layer whose test leaves a helper process behind that keeps the
    # child's stderr open for a while after the child itself has gone
    for _ in range(2 if tier == 'quick' else 8):
        idx += 1
        out.append({'idx': idx, 'helper': True, 'k': 2, 'N': 2,
                    'perm': [1, 0], 'hold': 'none',
                    'verbose': rng.choice([0, 1, 2]),
                    'linger': rng.choice([12, 14]),
                    'yseed': rng.randrange(1 << 30),
                    'wseed': rng.randrange(1 << 30)})
    rng.shuffle(out)
    return out


BRACKET_RE = re.compile(r'\[Parallel tests running in [^\n]*:\n  [^\]]*\]\n?')


def strip_keepalive(text):
    return BRACKET_RE.sub('', text)


def run_spawnfail(case):
    """-j N with one layer whose subprocess cannot be started."""
    import common
    import gen
    import runcase
    import vworld
    rng = random.Random(case['wseed'])
    prefix = 'vwj%d' % case['idx']
    k, N, fail = case['k'], case['N'], case['fail']
    layers = [{'name': 'L%d' % i, 'kind': 'class', 'bases': [],
               'hooks': {'setUp': 'ok', 'tearDown': 'ok'}} for i in range(k)]
    tokens = {}
    tbl = {}
    for i in range(k):
        tests = []
        for j in range(rng.randint(1, 3)):
            tok = 'TOK-L%d-%d-%d' % (i, j, rng.randrange(10 ** 6))
            tokens.setdefault('L%d' % i, []).append(tok)
            tests.append({'name': 'test_%d' % j,
                          'kind': 'fail' if rng.random() < 0.3 else 'pass',
                          'actions': [{'ph': 'body', 'do': 'write',
                                       'stream': 'stdout',
                                       'text': tok + '\n', 'flush': True}]})
        tbl['L%d' % i] = tests
    spec = gen.simple_world(prefix, layers, tbl)
    lm = spec['layers_module']
    viol = []
    counters = {'spawn_failure_runs': 1}

    def V(rule, mech, **d):
        d.update(k=k, N=N, fail=fail, verbose=case['verbose'])
        if len(viol) < 6:
            viol.append({'rule': rule, 'mech': mech, 'detail': d})

    w = common.run_world(spec, None, {'processes': N,
                                      'verbose': case['verbose']},
                         env_extra={'ZTR_SPAWN_FAIL': 'layer#%d:%s' % (
                             fail, rng.choice(['EAGAIN', 'ENOMEM']))})
    if w.raised is not None:
        V('parallel-run-aborted', 'run-raised',
          tb=(w.raised_tb or '')[-600:])
        return {'viol': viol, 'evals': 1, 'counters': counters}
    failed = [e.get('layer') for e in w.events if e['k'] == 'spawn.fail']
    if not failed:
        return {'inconclusive': 'no spawn failure was injected'}
    dead = {model_short for model_short in
            (f[len(lm) + 1:] for f in set(failed))}
    info = runcase.parse_output(strip_keepalive(w.out))
    hdrs = [l['name'][len(lm) + 1:] for l in info['layers']
            if l['name'].startswith(lm + '.')]
    want = ['L%d' % i for i in range(k) if 'L%d' % i not in dead]
    got = [h for h in hdrs if h not in dead]
    if got != want:
        V('layer-blocks-not-in-sequential-order', 'par-block-order-spawnfail',
          got=hdrs, want=want, dead=sorted(dead))
    for blk in info['layers']:
        short = blk['name'][len(lm) + 1:]
        body = '\n'.join(blk['lines'])
        for t in tokens.get(short, []):
            counters['tokens_checked'] = counters.get('tokens_checked', 0) + 1
            if t not in body:
                V('own-token-missing-from-block', 'par-block-content',
                  layer=short, token=t)
    for name, toks in tokens.items():
        if name in dead:
            continue
        for t in toks:
            if w.out.count(t) != 1:
                V('token-not-exactly-once-in-output', 'par-token-count',
                  token=t, count=w.out.count(t), layer=name)
    if w.verdict is not True:
        V('verdict-differs-from-sequential', 'par-verdict-spawnfail',
          verdict=w.verdict)
    counters['spawn_failure_runs_judged'] = 1
    return {'viol': viol, 'evals': 1, 'counters': counters,
            'sig': ['spawnfail', k, N, fail, case['verbose']],
            'sample': {'spawnfail': True, 'k': k, 'N': N, 'fail': fail,
                       'headers': hdrs}}


def run_chatty(case):
    """Bounded progress while a child is chatty: once the short layer has
    been reaped, the waiting layer must be started within a few seconds
    although the long layer keeps sending keep-alive dots."""
    import common
    import gen
    import vworld
    rng = random.Random(case['wseed'])
    prefix = 'vwj%d' % case['idx']
    layers = [{'name': 'L%d' % i, 'kind': 'class', 'bases': [],
               'hooks': {'setUp': 'ok', 'tearDown': 'ok'}} for i in range(3)]
    nlong = 450
    tbl = {'L0': [{'name': 'test_%03d' % j, 'kind': 'pass', 'actions': [
        {'ph': 'body', 'do': 'sleep', 's': 0.03}]} for j in range(nlong)],
        'L1': [{'name': 'test_0', 'kind': 'pass'}],
        'L2': [{'name': 'test_0', 'kind': 'pass'},
               {'name': 'test_1', 'kind': rng.choice(['pass', 'fail'])}]}
    spec = gen.simple_world(prefix, layers, tbl)
    lm = spec['layers_module']
    counters = {'chatty_runs': 1}
    viol = []
    w = common.run_world(spec, None, {'verbose': case['verbose'],
                                      'processes': 2}, timeout=180)
    if w.raised is not None:
        return {'viol': [{'rule': 'parallel-run-aborted',
                          'mech': 'run-raised',
                          'detail': {'tb': (w.raised_tb or '')[-600:]}}],
                'evals': 1, 'counters': counters}
    ev = w.events
    reap1 = next((e for e in ev if e['k'] == 'reap' and
                  e.get('layer') == lm + '.L1'), None)
    spawn2 = next((e for e in ev if e['k'] == 'spawn' and
                   e.get('layer') == lm + '.L2'), None)
    reap0 = next((e for e in ev if e['k'] == 'reap' and
                  e.get('layer') == lm + '.L0'), None)
    if not (reap1 and spawn2 and reap0):
        return {'inconclusive': 'spawn/reap events missing',
                'counters': counters}
    gap = (spawn2['t'] - reap1['t']) / 1e9
    left = (reap0['t'] - reap1['t']) / 1e9
    counters['chatty_gap_ms'] = int(max(gap, 0) * 1000)
    if left < 6:
        # the long layer was (nearly) over anyway: nothing to conclude
        return {'inconclusive': 'long layer ended %.1fs after the short '
                'one' % left, 'counters': counters}
    counters['chatty_judged'] = 1
    if gap > 5.0:
        viol.append({'rule': 'ready-layer-not-started-although-a-slot-was-'
                             'free', 'mech': 'par-free-slot-unused',
                     'detail': {'seconds_waited': round(gap, 2),
                                'long_layer_alive_for': round(left, 2),
                                'verbose': case['verbose'], 'N': 2,
                                'chatty': True}})
    return {'viol': viol, 'evals': 1, 'counters': counters,
            'sig': ['chatty', case['verbose']],
            'sample': {'chatty': True, 'gap_s': round(gap, 3),
                       'long_layer_alive_for_s': round(left, 1)}}


def run_helper(case):
    """The report of a layer subprocess arrives when its stderr ends -
    which is when the last process holding that pipe has gone.  However
    long that takes, the -j run must equal the sequential one."""
    import common
    import gen
    import vworld
    rng = random.Random(case['wseed'])
    prefix = 'vwj%d' % case['idx']
    layers = [{'name': 'L%d' % i, 'kind': 'class', 'bases': [],
               'hooks': {'setUp': 'ok', 'tearDown': 'ok'}} for i in range(2)]
    tbl = {'L0': [{'name': 'test_0', 'kind': 'pass', 'actions': [
        {'ph': 'body', 'do': 'spawn_helper', 's': case['linger']}]},
        {'name': 'test_1', 'kind': rng.choice(['fail', 'error'])},
        {'name': 'test_2', 'kind': 'pass'}],
        'L1': [{'name': 'test_0', 'kind': 'pass'},
               {'name': 'test_1', 'kind': rng.choice(['pass', 'fail'])}]}
    spec = gen.simple_world(prefix, layers, tbl)
    counters = {'lingering_helper_runs': 1}
    viol = []
    root = vworld.materialise(spec)
    try:
        ws = common.run_world(spec, None, {'verbose': 1}, root=root)
        wp = common.run_world(spec, None, {'verbose': case['verbose'],
                                           'processes': 2}, root=root,
                              timeout=180)
    finally:
        vworld.destroy(root)
    if ws.raised is not None or wp.raised is not None:
        return {'viol': [{'rule': 'parallel-run-aborted',
                          'mech': 'run-raised', 'detail': {
                              'tb': ((wp.raised_tb or ws.raised_tb) or
                                     '')[-600:]}}],
                'evals': 1, 'counters': counters}
    if not any(e['k'] == 'helper.spawned' for e in wp.events):
        return {'inconclusive': 'helper was not started',
                'counters': counters}
    counters['lingering_helper_judged'] = 1
    d = {'linger_s': case['linger'], 'verbose': case['verbose']}
    if wp.verdict != ws.verdict:
        viol.append({'rule': 'verdict-differs-from-sequential',
                     'mech': 'par-verdict',
                     'detail': dict(d, seq=ws.verdict, par=wp.verdict)})
    st, pt = ws.info['total'], wp.info['total']
    if st is not None and pt is not None and st != pt:
        viol.append({'rule': 'totals-differ-from-sequential',
                     'mech': 'par-totals', 'detail': dict(d, seq=st, par=pt,
                                                          out=wp.out[-500:])})
    if common.ran_counts(wp.events, 'test.setUp') != \
            common.ran_counts(ws.events, 'test.setUp'):
        viol.append({'rule': 'executed-multiset-differs-from-sequential',
                     'mech': 'par-executed', 'detail': d})
    return {'viol': viol, 'evals': 1, 'counters': counters,
            'sig': ['helper', case['verbose'], case['linger']],
            'sample': {'lingering_helper_s': case['linger'],
                       'totals': pt}}


def run_case(case):
    if case.get('chatty'):
        return run_chatty(case)
    if case.get('spawnfail'):
        return run_spawnfail(case)
    if case.get('helper'):
        return run_helper(case)
    import common
    import gen
    import runcase
    import vworld
    import ztr_monitor
    rng = random.Random(case['wseed'])
    k, N, perm, hold = case['k'], case['N'], case['perm'], case['hold']
    prefix = 'vwj%d' % case['idx']
    multi_event = [0]
    layers = []
    tbl = {}
    tokens = {}
    # three worlds in ten are shuffled with a fixed seed and have tests
    # whose outcome depends on the order inside the layer (a test that fails
    # when a certain other test of its class ran before it): "the same
    # outcomes" then needs the same order in the subprocesses
    shuffled = rng.random() < 0.3
    for i in range(k):
        name = 'L%d' % i
        hooks = {'setUp': 'ok', 'tearDown': 'ok'}
        r = rng.random()
        if r < 0.35:
            # the child says something on its real stderr while shutting
            # down, after the report
            hooks['setUp'] = {'beh': 'ok', 'actions': [
                {'ph': 'body', 'do': 'atexit_write',
                 'text': rng.choice(['bye from %s\n' % name,
                                     'Exception ignored in: <function f>\n'
                                     'Traceback (most recent call last):\n'
                                     '  File "x.py", line 1, in f\n'
                                     'ValueError: late\n',
                                     'a b c\n', 'x\n' * 30])}]}
        elif r < 0.6:
            # ... or before it (ordinary chatter, not a report look-alike)
            hooks['setUp'] = {'beh': 'ok', 'actions': [
                {'ph': 'body', 'do': 'write', 'stream': 'fd2',
                 'text': rng.choice(['connection was reset\n', 'a b c\n',
                                     'warning: %s is slow\n' % name,
                                     '1 2\n', 'x y\n' * 20])}]}
        layers.append({'name': name, 'kind': 'class', 'bases': [],
                       'hooks': hooks})
        tests = []
        for j in range(rng.randint(3, 5) if shuffled else rng.randint(2, 3)):
            tok = 'TOK-%s-%d-%d' % (name, j, rng.randrange(10 ** 6))
            tokens.setdefault(name, []).append(tok)
            kind = 'pass'
            t = {'name': 'test_%d' % j}
            if rng.random() < 0.3:
                # every kind of outcome, also tests that produce more result
                # events than there are tests (several failing sub-tests,
                # body + tearDown errors): a layer may report more failures
                # than tests
                kind = rng.choice(['fail', 'error', 'subtests', 'subtests',
                                   'body_teardown_error', 'uxsuccess',
                                   'skip_body', 'xfail',
                                   'fail_teardown_error'])
                if kind == 'subtests':
                    t['subs'] = [rng.choice('FFEP')
                                 for _ in range(rng.randint(2, 4))]
                    if not set(t['subs']) & {'F', 'E'}:
                        t['subs'][0] = 'F'
                    if t['subs'].count('F') + t['subs'].count('E') > 1:
                        multi_event[0] += 1
            if shuffled and j > 0 and rng.random() < 0.6:
                kind = 'pass'
                t['fails_after'] = 'test_%d' % rng.randrange(j)
            t.update({'kind': kind,
                      'actions': [{'ph': 'body', 'do': 'write',
                                   'stream': 'stdout',
                                   'text': tok + '\n', 'flush': True}]})
            tests.append(t)
        tbl[name] = tests
    spec = gen.simple_world(prefix, layers, tbl)
    broken_module = rng.random() < 0.15
    if broken_module:
        # a test module nobody can import: the parent has counted it, every
        # layer subprocess meets it again
        spec['modules'].append({
            'name': '%s_p.tests.test_zbroken' % prefix,
            'file': '%s_p/tests/test_zbroken.py' % prefix,
            'fault': {'what': 'raise', 'exc': rng.choice(
                ['ImportError', 'SyntaxError', 'ValueError'])},
            'suite': {'t': 'suite', 'ch': []}})
    lm = spec['layers_module']
    full = {i: '%s.L%d' % (lm, i) for i in range(k)}
    tests_with_several_events = multi_event[0]
    tids = {}
    for tid, ts, layer, lvl, m, node in vworld.iter_tests(spec):
        tids.setdefault(layer, []).append(tid)
    viol = []
    counters = {}

    def C(key, n=1):
        counters[key] = counters.get(key, 0) + n

    def V(rule, mech, **d):
        d.update(k=k, N=N, perm=perm, hold=hold, verbose=case['verbose'])
        if len(viol) < 8:
            viol.append({'rule': rule, 'mech': mech, 'detail': d})

    # ---- holds: arrival barrier, then forced finish order
    holds = []
    first_wave = list(range(min(N, k)))
    plan = {}
    if N > 1:
        for i in range(k):
            name = 'L%d' % i
            first = tids[name][0]
            if i in first_wave:
                # (shuffled worlds: points that do not depend on the order
                # of the tests inside the layer)
                holds.append({'point': 'layer.setUp:' + name if shuffled
                              else 'test.body:' + first,
                              'child_only': True, 'set': ['arrived.%d' % i],
                              'wait_for': ['arrived.%d' % j
                                           for j in first_wave],
                              'timeout': 45, 'tag': 'arrival'})
            pos = perm.index(i)
            if pos > 0:
                before = perm[pos - 1]
                pt = {'body': 'layer.tearDown:' + name if shuffled
                      else 'test.body:' + tids[name][-1],
                      'tearDown': 'layer.tearDown:' + name,
                      'report': 'report',
                      # after the child closed its stdout, before the
                      # first byte of its report
                      'report.stderr': 'report.stderr'}[hold]
                h = {'point': pt, 'child_only': True,
                     'wait_for': ['reaped.' + full[before]], 'timeout': 30,
                     'tag': 'finish'}
                if hold in ('report', 'report.stderr'):
                    h['layer'] = full[i]
                holds.append(h)
        plan = {'holds': holds}
    else:
        # N == 1: resumed children through tear-downs that are not supported
        plan = {'layers': {'L%d' % i: {'tearDown': 'nie'} for i in range(k)}}
    root = vworld.materialise(spec)
    try:
        seqopts = {'verbose': 1}
        if shuffled:
            seqopts['shuffle_seed'] = case['wseed'] % 1000
            C('shuffled_worlds_with_order_dependent_tests')
        ws = common.run_world(spec, None, seqopts, root=root)
        if ws.raised is not None:
            V('sequential-run-aborted', 'run-raised',
              tb=(ws.raised_tb or '')[-500:])
            return {'viol': viol, 'evals': 1, 'counters': counters}
        seq_order = [l['name'] for l in ws.info['layers']]
        seq_ran = common.ran_counts(ws.events, 'test.setUp')
        opts = {'verbose': case['verbose'], 'processes': N}
        if shuffled:
            opts['shuffle_seed'] = seqopts['shuffle_seed']
        yi = ztr_monitor.enable_yield_injection(case['yseed'])
        y0 = ztr_monitor.COUNTERS.get('yield.lines', 0)
        try:
            ee = {'ZTR_PROC_EVENTS': '1'}
            if rng.random() < 0.5:
                # the parent's stdout is slow: flushing it blocks for a
                # few milliseconds now and then (children keep finishing
                # meanwhile)
                ee['ZTR_SLOW_FLUSH_MS'] = rng.choice(['3', '8', '20'])
                C('slow_stdout_runs')
            if rng.random() < 0.3:
                # one transient error while reading a child's stdout (the
                # parent reports it and goes on reading)
                ee['ZTR_READ_FAIL'] = '%d:%d:%s' % (
                    rng.randint(1, k), rng.randint(1, 6),
                    rng.choice(['EIO', 'EAGAIN', 'EINTR']))
            wp = common.run_world(spec, plan, opts, root=root, markers=True,
                                  env_extra=ee)
        finally:
            ztr_monitor.disable_yield_injection()
        C('yield_lines', ztr_monitor.COUNTERS.get('yield.lines', 0) - y0)
        C('par_runs')
        C('transient_read_errors',
          sum(1 for e in wp.events if e['k'] == 'read.fail'))
        C('children_with_late_stderr',
          sum(1 for e in wp.events if e['k'] == 'atexit.registered'))
        if wp.raised is not None:
            V('parallel-run-aborted', 'run-raised',
              tb=(wp.raised_tb or '')[-700:])
            return {'viol': viol, 'evals': 1, 'counters': counters}
        ev = wp.events
        # barrier outcome
        tmo = [e for e in ev if e['k'] == 'barrier.timeout']
        arrival_tmo = [e for e in tmo if any(
            str(m).startswith('arrived.') for m in e.get('missing', []))]
        if arrival_tmo:
            V('fewer-than-N-children-made-progress-together',
              'par-parallelism-below-N',
              missing=arrival_tmo[0].get('missing'))
        elif N > 1:
            C('arrival_barriers_passed')
        finish_tmo = [e for e in tmo if e not in arrival_tmo]
        if finish_tmo:
            # A child waited in vain for the layer that has to finish before
            # it.  If that layer had not even been started although fewer
            # than N children were alive, the runner left a free slot unused:
            # "up to N layers do make progress at the same time" is violated.
            e0 = finish_tmo[0]
            awaited = [m[len('reaped.'):] for m in e0.get('missing', [])
                       if str(m).startswith('reaped.')]
            t0 = e0['t']
            alive_then = sum(1 for e in ev if e['k'] == 'spawn' and
                             e['t'] < t0) - \
                sum(1 for e in ev if e['k'] == 'reap' and e['t'] < t0)
            started = [e for e in ev if e['k'] == 'spawn' and
                       e.get('layer') in awaited and e['t'] < t0]
            if awaited and not started and alive_then < N:
                V('ready-layer-not-started-although-a-slot-was-free',
                  'par-free-slot-unused', awaited=awaited,
                  alive=alive_then)
                return {'viol': viol, 'evals': 1, 'counters': counters}
            return {'inconclusive': 'finish-order barrier timed out: %r'
                    % (e0,), 'counters': counters}
        # (a) equivalence
        C('tests_with_several_events', tests_with_several_events)
        if broken_module:
            C('runs_with_an_unimportable_module')
        par_ran = common.ran_counts(ev, 'test.setUp')
        if par_ran != seq_ran:
            V('executed-multiset-differs-from-sequential', 'par-executed',
              seq=len(seq_ran), par=len(par_ran),
              diff=sorted(set(seq_ran) ^ set(par_ran))[:4])
        if wp.verdict != ws.verdict:
            V('verdict-differs-from-sequential', 'par-verdict',
              seq=ws.verdict, par=wp.verdict)
        if case['verbose'] >= 1:
            for key in ('failures_list', 'errors_list'):
                a = sorted(ws.info[key] or [])
                b = sorted(wp.info[key] or [])
                if a != b:
                    V('name-list-differs-from-sequential', 'par-' + key,
                      seq=a[:5], par=b[:5])
        st, pt = ws.info['total'], wp.info['total']
        if st is not None and pt is not None and st != pt:
            V('totals-differ-from-sequential', 'par-totals', seq=st, par=pt)
        # (b) output blocks
        text = strip_keepalive(wp.out)
        info = runcase.parse_output(text)
        hdrs = [l['name'] for l in info['layers']]
        if hdrs != seq_order:
            V('layer-blocks-not-in-sequential-order', 'par-block-order',
              got=hdrs, want=seq_order,
              observed_finish=[e.get('layer') for e in ev
                               if e['k'] == 'reap'])
        for blk in info['layers']:
            C('blocks_checked')
            body = '\n'.join(blk['lines'])
            short = blk['name'][len(spec['layers_module']) + 1:] if blk['name'].startswith(spec['layers_module'] + '.') else blk['name'].rsplit('.', 1)[-1]
            for name, toks in tokens.items():
                for t in toks:
                    C('tokens_checked')
                    inside = t in body
                    if name == short and not inside:
                        V('own-token-missing-from-block', 'par-block-content',
                          layer=short, token=t)
                    if name != short and inside:
                        V('foreign-token-inside-block', 'par-block-foreign',
                          layer=short, token=t, owner=name)
        for name, toks in tokens.items():
            for t in toks:
                if wp.out.count(t) != 1:
                    V('token-not-exactly-once-in-output', 'par-token-count',
                      token=t, count=wp.out.count(t))
        # (c) bound
        spawns = [e for e in ev if e['k'] == 'spawn']
        for e in spawns:
            C('alive_samples')
            if e['alive'] > max(1, N):
                V('more-than-N-children-alive', 'par-bound-proxy',
                  alive=e['alive'], layer=e.get('layer'))
        parent = next((e['pid'] for e in ev if e['k'] == 'run.enter'), None)
        spans = {}
        for e in ev:
            if e['k'] == 'proc.start' and e['pid'] != parent:
                spans.setdefault(e['pid'], [None, None])[0] = e['t']
            elif e['k'] == 'proc.exit' and e['pid'] != parent:
                spans.setdefault(e['pid'], [None, None])[1] = e['t']
        pts = []
        for pid, (a, b) in spans.items():
            if a is not None and b is not None:
                pts += [(a, 1), (b, -1)]
        cur = peak = 0
        for t, d in sorted(pts):
            cur += d
            peak = max(peak, cur)
        if peak > max(1, N):
            V('more-than-N-children-alive', 'par-bound-intervals', peak=peak)
        if peak >= 2:
            C('overlapping_runs')
        # which finish order was observed?
        reaped = [e.get('layer') for e in ev if e['k'] == 'reap']
        want_finish = [full[i] for i in perm]
        if N > 1:
            if reaped == want_finish:
                C('forced_permutations_observed')
            elif not viol:
                return {'inconclusive': 'requested finish order %r not '
                        'realised: %r' % (want_finish, reaped),
                        'counters': counters}
            # (a run that already differs from the sequential one is a
            # violation whatever finish order came about)
    finally:
        vworld.destroy(root)
    sig = None
    if peak >= 2:
        sig = [k, N, perm, hold, case['verbose']]
    return {'viol': viol, 'evals': 1, 'sig': sig, 'counters': counters,
            'observed': reaped,
            'sample': {'k': k, 'N': N, 'perm': perm, 'hold': hold,
                       'verbose': case['verbose'], 'reap_order': reaped,
                       'peak_alive': peak}}


def summarize(results, cases):
    seen = set()
    for r in results:
        if r.get('observed'):
            seen.add(tuple(r['observed']))
    return {'distinct_finish_orders_observed': len(seen)}
