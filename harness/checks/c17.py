"""C17 - XML reports are well-formed and agree with the run."""
import json
import os
import random

LEVEL = 'exploration'
RULE = ('worlds of 1-2 classes x 1-5 tests with every outcome kind (incl. '
        'failing sub-tests, unexpected success, two-event kinds), optional '
        'doctest functions (DocTestSuite), a DocFileSuite file and an '
        'import-failing module; exception/failure messages drawn from a '
        'Unicode generator (C0/C1 controls, NUL, \\x0b, U+FFFE/U+FFFF, lone '
        'surrogates, <&>"\', ]]>, CDATA look-alikes, 100 kB, multi-line, '
        'astral planes); method names with markup-significant and non-ASCII '
        'characters; --repeat 1-2, --buffer. Oracle: every file under '
        '<dir>/testreports parses with expat (ElementTree and minidom); '
        '@tests/@errors/@failures equal the element counts; per test the '
        'testcase elements (classname == its own class, name starting with '
        'its own method name) equal the calibrated unittest events: one '
        'plain testcase per passing iteration, one with <failure>/<error> '
        'per failure/error event. Non-trivial = a message or name contains a '
        'character outside printable ASCII or one of <&>"\']; distinct by '
        '(kinds, message classes, options).')
ASSUMPTIONS = ['expat is the arbiter of well-formedness',
               'control characters and lone surrogates are generated in '
               'messages only; names use XML-legal characters',
               'skipped tests are not constrained (the statement is silent)']
FLOORS = {'files_parsed': 300, 'testcases_matched': 1500,
          'hostile_messages': 300, 'event_elements_checked': 500,
          'subtest_events': 50, 'doctest_cases': 50, 'hostile_names': 100,
          'tests_printing_hostile_output_buffered': 60,
          'classes_spread_over_layers': 40}
BATCH_TIMEOUT = 300

KINDS = ['pass', 'pass', 'fail', 'error', 'setup_error', 'teardown_error',
         'cleanup_error', 'body_teardown_error', 'fail_teardown_error',
         'skip_body', 'xfail', 'uxsuccess', 'subtests']


def batch_size(tier):
    return 10


def cases(tier, seed):
    rng = random.Random(seed * 6007 + 17)
    n = 400 if tier == 'quick' else 8000
    return [{'idx': i, 'wseed': rng.randrange(1 << 30)} for i in range(n)]


def gen_message(rng):
    """(message, class label)"""
    r = rng.random()
    if r < 0.12:
        return 'plain message %d' % rng.randrange(100), 'plain'
    if r < 0.27:
        c = chr(rng.choice(list(range(0, 9)) + [0x0b, 0x0c] +
                           list(range(0x0e, 0x20))))
        return 'ctl %s mid %s' % (c, c * rng.randint(1, 3)), 'c0'
    if r < 0.35:
        return 'nul \x00 byte', 'nul'
    if r < 0.43:
        return 'c1 %s %s' % (chr(rng.randrange(0x7f, 0xa0)), '\x85'), 'c1'
    if r < 0.53:
        return 'sur %s lone' % chr(rng.randrange(0xd800, 0xe000)), 'surrogate'
    if r < 0.6:
        return 'non %s %s' % ('￾', '￿'), 'nonchar'
    if r < 0.72:
        return rng.choice(['<&>"\'', '</failure></testcase>', ']]>',
                           '<![CDATA[x]]>', '&#0; &amp; &bogus;',
                           '<?xml version="1.0"?>', '--><!--']), 'markup'
    if r < 0.8:
        return 'astral \U0001f600 \U00020000 caf\xe9 ☃', 'astral'
    if r < 0.88:
        return 'line1\nline2\r\nline3\rline4\ttab', 'multiline'
    if r < 0.93:
        return ('long ' + 'x<&' * 33000), 'long'
    return '', 'empty'


NAME_SUFFIX = ['', '', '', '_caf\xe9', '_中文', '_\U0001d4b3']
HOSTILE_NAMES = ['test_<&>', 'test_"q\'', 'test_]]>', 'test a b',
                 'test_\U0001f600', 'test_[x/y]', 'test_&amp;',
                 'test_version_1.2', 'test_a.b.c', 'test_(x=0.5)']


def run_case(case):
    import xml.dom.minidom
    import xml.etree.ElementTree as ET
    import common
    import gen
    import truth
    import vworld
    rng = random.Random(case['wseed'])
    prefix = 'vwz%d' % case['idx']
    ncls = rng.randint(1, 2)
    # a fifth of the worlds run in layer subprocesses (each writes report
    # files of its own into the same directory): give those worlds 2-3
    # layers so that several children come one after the other / together
    submode = rng.choice(['par', 'resume']) if rng.random() < 0.2 else None
    if submode:
        ncls = rng.randint(2, 3)
    nodes = []
    labels = set()
    hostile_names = 0
    writers = 0
    for c in range(ncls):
        tests = []
        for i in range(rng.randint(1, 5)):
            kind = rng.choice(KINDS)
            msg, lab = gen_message(rng)
            labels.add(lab)
            if rng.random() < 0.12:
                name = rng.choice(HOSTILE_NAMES) + str(i)
                hostile_names += 1
            else:
                name = 'test_%d%s' % (i, rng.choice(NAME_SUFFIX))
            t = {'name': name, 'kind': kind, 'msg': msg,
                 'exc': rng.choice(['ValueError', 'KeyError', 'NeedsArgs',
                                    'Chained', 'OSError', 'Group'])}
            if rng.random() < 0.3:
                # what tests print is as hostile as what they raise: colour
                # escapes, progress spinners, binary dumps - with --buffer
                # the runner holds it and shows it for failing tests
                wmsg, wlab = gen_message(rng)
                if wlab not in ('long', 'surrogate'):
                    labels.add(wlab)
                    t['actions'] = [{'ph': rng.choice(['setUp', 'body']),
                                     'do': 'write', 'text': wmsg + '\n',
                                     'stream': rng.choice(['stdout',
                                                           'stderr'])}]
                    writers += 1
            if kind == 'subtests':
                t['subs'] = rng.choice([['F'], ['P', 'E'], ['F', 'E', 'P'],
                                        ['F', 'F']])
                r = rng.random()
                if r < 0.3:
                    t['subkw'] = {'x': 0.5}
                elif r < 0.5:
                    t['submsg'] = 'see section 3.1'
                elif r < 0.6:
                    t['subkw'] = {'path': 'a.b/c.d'}
            tests.append(t)
        node = {'t': 'class',
                'name': 'TestX%d%s' % (c, rng.choice(['', '', '\xc9'])),
                'tests': tests}
        if submode:
            node['layer'] = 'L%d' % c
        nodes.append(node)
    ndoc = 0
    if rng.random() < 0.35:
        docs = []
        for i in range(rng.randint(1, 2)):
            msg, lab = gen_message(rng)
            labels.add(lab)
            if lab in ('nul', 'long', 'multiline'):
                msg = 'x'
            ok = rng.random() < 0.4
            docs.append({'name': 'doc_%d' % i, 'doc':
                         'Example.\n\n    >>> print(%r)\n    %s\n' % (
                             msg, msg if ok and msg.strip() and
                             '\r' not in msg else 'something else')})
            ndoc += 1
        nodes.append({'t': 'doctest', 'docs': docs})
    extra_files = []
    docfile_names = []
    if rng.random() < 0.25:
        msg, lab = gen_message(rng)
        if lab in ('nul', 'long', 'multiline', 'surrogate'):
            msg, lab = '<&> caf\xe9 \x0b', 'c0'
        labels.add(lab)
        extra_files.append({'file': 'docs/readme_%d.txt' % case['idx'],
                            'content': 'A doc file\n\n    >>> print(%r)\n'
                                       '    nope\n' % msg})
        dfiles = ['docs/readme_%d.txt' % case['idx']]
        if rng.random() < 0.6:
            # a second doc file whose name differs in punctuation only
            twin = 'docs/readme%s%d.txt' % (rng.choice([' ', '-', '+', '.']),
                                            case['idx'])
            extra_files.append({'file': twin,
                                'content': 'Twin\n\n    >>> print(1)\n'
                                           '    %d\n' % rng.choice([1, 2])})
            dfiles.append(twin)
            ndoc += 1
        nodes.append({'t': 'docfile', 'files': dfiles})
        docfile_names = [os.path.basename(f) for f in dfiles]
        ndoc += 1
    xlayers = []
    backends = False
    if not submode and rng.random() < 0.25:
        # one test class run against several backends: its test instances
        # sit on different layers (and on none), all run in this process one
        # layer after the other - one report file per class all the same
        backends = True
        xlayers = [{'name': 'B%d' % c, 'kind': 'class', 'bases': [],
                    'hooks': {'setUp': 'ok', 'tearDown': 'ok'}}
                   for c in range(rng.randint(2, 3))]
        for node in nodes:
            if node['t'] == 'class':
                for t in node['tests']:
                    t['ilayer'] = rng.choice(
                        [x['name'] for x in xlayers] + ['UNIT'])
    if submode:
        xlayers = [{'name': 'L%d' % c, 'kind': 'class', 'bases': [],
                    'hooks': {'setUp': 'ok', 'tearDown': 'nie'
                              if submode == 'resume' else 'ok'}}
                   for c in range(ncls)]
    spec = {'prefix': prefix, 'layers_module': prefix + '_layers',
            'layers': xlayers, 'extra_files': extra_files,
            'modules': [{'name': prefix + '_p.tests.test_x',
                         'file': prefix + '_p/tests/test_x.py',
                         'suite': {'t': 'suite', 'ch': nodes}}]}
    if backends:
        spec['modules'][0]['suite']['flat'] = True
    import_fault = rng.random() < 0.15
    if import_fault:
        msg, lab = gen_message(rng)
        labels.add(lab)
        spec['modules'].append({
            'name': prefix + '_p.tests.test_broken',
            'file': prefix + '_p/tests/test_broken.py',
            'suite': {'t': 'suite', 'ch': []},
            'fault': {'what': 'raise', 'exc': 'ImportError',
                      'msg': msg if lab != 'long' else 'short'}})
    opts = {'verbose': rng.randint(0, 2)}
    if rng.random() < 0.2:
        opts['repeat'] = 2
    if rng.random() < 0.35:
        opts['buffer'] = True
    if submode == 'par':
        # the layers run in subprocesses, which write the report files
        opts['processes'] = rng.randint(2, 3)
    rep = opts.get('repeat') or 1
    root = vworld.materialise(spec)
    xmldir = os.path.join(root, 'xmlout')
    viol = []
    counters = {}

    def C(k, n=1):
        counters[k] = counters.get(k, 0) + n

    def V(rule, mech, **d):
        d.update(opts=opts, labels=sorted(labels))
        if len(viol) < 8:
            viol.append({'rule': rule, 'mech': mech, 'detail': d})

    # the report directory as the user typed it: a quarter of the runs give
    # it relative to the directory the runner is started in - and in half of
    # those a test changes the working directory and does not go back
    xml_arg = xmldir
    rel = rng.random() < 0.25
    if rel:
        xml_arg = rng.choice(['xmlout', './xmlout', 'sub/../xmlout'])
        if xml_arg.startswith('sub'):
            os.makedirs(os.path.join(root, 'sub'), exist_ok=True)
        C('relative_report_dir')
        if rng.random() < 0.5:
            victims = [t for n in nodes if n['t'] == 'class'
                       for t in n['tests'] if t['kind'] != 'skip_deco']
            if victims:
                t = rng.choice(victims)
                t.setdefault('actions', []).append(
                    {'ph': 'setUp', 'do': 'chdir', 'path': 'work'})
                with open(os.path.join(root, 'world.json'), 'w') as f:
                    json.dump(spec, f)
                C('tests_changing_cwd')
    try:
        w = common.run_world(spec, None, opts, extra_argv=['--xml', xml_arg],
                             root=root, cwd=root if rel else None)
        if w.raised is not None:
            tb = w.raised_tb or ''
            mech = 'run-raised'
            if 'writeXMLReports' in tb:
                mech = 'xml-write-raised-' + type(w.raised).__name__
            V('run-aborted', mech, tb=tb[-900:])
            return {'viol': viol, 'evals': 1, 'counters': counters}
        if backends:
            C('classes_spread_over_layers', sum(
                1 for n in nodes if n['t'] == 'class' and
                len({t.get('ilayer') for t in n['tests']}) > 1))
        if submode:
            C('subprocess_written_reports')
            C('layer_subprocesses', len({
                e['pid'] for e in w.events if e['k'] == 'test.setUp'}))
        rdir = os.path.join(xmldir, 'testreports')
        files = sorted(os.listdir(rdir)) if os.path.isdir(rdir) else []
        cases_by_class = {}
        for fn in files:
            path = os.path.join(rdir, fn)
            data = open(path, 'rb').read()
            try:
                tree = ET.fromstring(data)
                xml.dom.minidom.parseString(data)
            except Exception as e:
                bad = sorted({lab for lab in labels
                              if lab in ('c0', 'nul', 'surrogate', 'nonchar',
                                         'c1')})
                V('report-not-well-formed', 'xml-not-well-formed',
                  file=fn, error=str(e)[:200], suspects=bad)
                continue
            C('files_parsed')
            tcs = tree.findall('testcase')
            ne = len(tree.findall('testcase/error'))
            nf = len(tree.findall('testcase/failure'))
            if (tree.get('tests'), tree.get('errors'),
                    tree.get('failures')) != (str(len(tcs)), str(ne),
                                              str(nf)):
                V('suite-attributes-differ-from-elements',
                  'xml-attribute-counts', file=fn,
                  attrs=[tree.get('tests'), tree.get('errors'),
                         tree.get('failures')],
                  counted=[len(tcs), ne, nf])
            for tc in tcs:
                cases_by_class.setdefault(tc.get('classname'), []).append(
                    (tc.get('name'), len(tc.findall('failure')),
                     len(tc.findall('error'))))
        if any(v['rule'] == 'report-not-well-formed' for v in viol):
            return {'viol': viol, 'evals': 1, 'counters': counters}
        # ---- compare with the calibrated events of each test
        modname = spec['modules'][0]['name']
        started = common.ran_counts(w.events, 'test.setUp')
        for node in nodes:
            if node['t'] != 'class':
                continue
            cname = '%s.%s' % (modname, node['name'])
            got = list(cases_by_class.get(cname, []))
            foreign = cases_by_class.get('unittest.case._SubTest', [])
            for ts in node['tests']:
                tid = '%s.%s' % (cname, ts['name'])
                if not started.get(tid):
                    continue
                c = truth.calibrate_test(modname, node['name'], ts)
                mine = [g for g in got if g[0] == ts['name'] or
                        g[0].startswith(ts['name'] + ' ')]
                if ts['kind'] == 'subtests':
                    # a sub-test is named '<method> <description>': the
                    # description must be the one unittest gives it
                    descs = [n.split(') ', 1)[1] for n in c['F'] + c['E']
                             if ') ' in n]
                    mine = [g for g in mine
                            if not (g[1] or g[2]) or
                            g[0][len(ts['name']) + 1:] in descs]
                nF = len(c['F'])
                nE = len(c['E'])
                nU = len(c['U'])
                is_plain_pass = not (nF or nE or nU or c['S'])
                want_plain = rep if is_plain_pass else None
                gotF = sum(1 for g in mine if g[1])
                gotE = sum(1 for g in mine if g[2])
                gotP = sum(1 for g in mine if not g[1] and not g[2])
                C('testcases_matched', len(mine))
                if ts['kind'] == 'subtests':
                    C('subtest_events', nF + nE)
                if is_plain_pass:
                    if (gotP, gotF, gotE) != (rep, 0, 0):
                        V('passing-test-not-exactly-once',
                          'xml-passing-count', test=tid,
                          got=[gotP, gotF, gotE], want=rep)
                else:
                    C('event_elements_checked', (nF + nE + nU) * rep)
                    ok = (gotF + gotE == (nF + nE + nU) * rep and
                          gotF >= nF * rep and gotE >= nE * rep)
                    if not ok:
                        mech = 'xml-event-count'
                        if ts['kind'] == 'subtests' and foreign:
                            mech = 'xml-subtest-foreign-class'
                        V('failure-or-error-events-not-in-report', mech,
                          test=tid, kind=ts['kind'],
                          got={'failure': gotF, 'error': gotE,
                               'plain': gotP},
                          want={'failure': nF * rep, 'error': nE * rep,
                                'uxsuccess': nU * rep},
                          foreign=foreign[:3])
        # every doc file is a test of its own: `rep` testcases carry its name
        allnames = [n for lst in cases_by_class.values() for n, _f, _e in lst]
        for dn in docfile_names:
            C('docfile_cases_checked')
            if allnames.count(dn) != rep:
                V('docfile-test-not-in-reports-once-per-iteration',
                  'xml-docfile-count', docfile=dn,
                  count=allnames.count(dn), want=rep, files=files[:8])
        C('doctest_cases', ndoc)
    finally:
        vworld.destroy(root)
    hostile = labels - {'plain', 'empty'}
    C('hostile_messages', 1 if hostile else 0)
    C('hostile_names', hostile_names)
    C('tests_printing_hostile_output', writers)
    if opts.get('buffer'):
        C('tests_printing_hostile_output_buffered', writers)
    sig = None
    if hostile or hostile_names:
        sig = [[(n.get('name'), [(t['name'], t['kind']) for t in
                                 n.get('tests', [])]) for n in nodes],
               sorted(labels), opts]
    return {'viol': viol, 'evals': 1, 'sig': sig, 'counters': counters,
            'sample': {'labels': sorted(labels), 'opts': opts,
                       'files': files[:4],
                       'kinds': [t['kind'] for n in nodes
                                 for t in n.get('tests', [])]}}
