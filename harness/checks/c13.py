"""C13 - buffered output is attributed correctly; std streams are always
restored."""
import itertools
import random
import re

LEVEL = 'exploration'
RULE = ('all sequences over 14 outcome kinds up to length 3 (2954, '
        'exhaustive; thorough adds sampled length 4-6) inside one layer with '
        'per-test hooks; every test writes unique tokens in random phases '
        '(setUp/body/tearDown/cleanup) to sys.stdout / sys.stderr, with or '
        'without trailing newline, as bytes through .buffer, or nothing; '
        '--buffer on (75%) / off, -v0..3; a sample as CLI child runs. The '
        'ordered log of every write to the real stream objects is the '
        'observation. Oracle with --buffer: tokens of pass / skip / expected '
        'failure tests absent; every token of a failing/erroring test '
        'present exactly once, after that test\'s own "Error|Failure in test" '
        'header and before the next test\'s first header or token; identity '
        'probes: sys.stdout/sys.stderr are the original objects in every '
        'layer per-test hook and after the run, and are replaced inside '
        'tests (non-vacuity); without --buffer the identity holds at every '
        'probe. Non-trivial = a writing test adjacent to a test of another '
        'outcome class; distinct by (kind sequence, write pattern, options).')
ASSUMPTIONS = ['subunit (forces --buffer) is not installed and not covered',
               'an unexpected success may show or hide its output (only '
               '"at most once" is required)']
FLOORS = {'tokens_hidden_checked': 1500, 'tokens_shown_checked': 1500,
          'probes_between_tests': 3000, 'probes_in_tests_buffered': 2000,
          'probes_unbuffered': 500, 'multi_event_tests': 200,
          'class_fixture_events': 300, 'probes_in_layer_subprocess': 300,
          'interrupts_that_reached_the_caller': 100,
          'interrupts_that_reached_the_caller_post_mortem': 30}
BATCH_TIMEOUT = 300

KINDS = ['pass', 'fail', 'error', 'setup_error', 'teardown_error',
         'cleanup_error', 'body_teardown_error', 'fail_teardown_error',
         'skip_deco', 'skip_setup', 'skip_body', 'xfail', 'uxsuccess',
         'subtests']
# Elements that are not single test cases but a whole class run as a unit
# through the stdlib suite machinery (vworld_rt.UnitEntry), so that its class
# fixtures run: the fixture outcomes reach the result as addSkip / addError
# *without* startTest / stopTest around them.
#   u_skip   setUpClass raises SkipTest (the test inside never runs)
#   u_error  setUpClass raises (the test inside never runs)
#   u_tdfail the test inside passes and writes, tearDownClass raises
#   u_fail   fixtures fine, the test inside fails and writes
UNIT_KINDS = ['u_skip', 'u_error', 'u_tdfail', 'u_fail']
HIDDEN = {'pass', 'skip_deco', 'skip_setup', 'skip_body', 'xfail',
          'u_tdfail'}
SHOWN = {'fail', 'error', 'setup_error', 'teardown_error', 'cleanup_error',
         'body_teardown_error', 'fail_teardown_error', 'subtests', 'u_fail'}


def EXHAUSTIVE(tier):
    return True


def batch_size(tier):
    return 40


def cases(tier, seed):
    rng = random.Random(seed * 2221 + 13)
    seqs = []
    for n in (1, 2, 3):
        seqs += list(itertools.product(KINDS, repeat=n))
    if tier == 'thorough':
        for _ in range(8000):
            seqs.append(tuple(rng.choice(KINDS)
                              for _k in range(rng.randint(4, 6))))
    # sequences with 1-2 class-as-a-unit elements among ordinary tests
    for _ in range(700 if tier == 'quick' else 5000):
        n = rng.randint(1, 4)
        seq = [rng.choice(KINDS) for _k in range(n)]
        for _k in range(rng.randint(1, 2)):
            seq.insert(rng.randint(0, len(seq)), rng.choice(UNIT_KINDS))
        seqs.append(tuple(seq))
    # runs that are cut short by a KeyboardInterrupt inside a test (setUp /
    # body / tearDown), half of them with the post-mortem debugger switched
    # on (-D, scripted session): "after the run" the streams are the
    # original objects also then
    nk = 300 if tier == 'quick' else 3000
    kb = []
    for _ in range(nk):
        seq = [rng.choice(KINDS) for _k in range(rng.randint(0, 3))]
        seq.append('kbint_' + rng.choice(['setUp', 'body', 'tearDown']))
        kb.append(tuple(seq))
    seqs += kb
    out = []
    for i, seq in enumerate(seqs):
        out.append({'idx': i, 'seq': list(seq),
                    'wseed': rng.randrange(1 << 30),
                    'buffer': rng.random() < 0.75,
                    'verbose': rng.randint(0, 3),
                    'cli': rng.random() < (0.01 if tier == 'quick' else 0.03)})
        # the layer in a subprocess (-j 2): what a failing test wrote comes
        # back through the child's stdout
        out[-1]['sub'] = (not out[-1]['cli']) and rng.random() < 0.05
        if seq[-1].startswith('kbint_'):
            out[-1].update(cli=False, sub=False, pm=rng.random() < 0.5,
                           buffer=rng.random() < 0.85)
    return out


def reachable_phases(kind):
    """Phases of a test in which an action certainly runs."""
    if kind in ('skip_deco', 'u_skip', 'u_error'):
        return []
    if kind in ('setup_error', 'skip_setup'):
        return ['setUp', 'cleanup']
    return ['setUp', 'body', 'tearDown', 'cleanup']


def run_case(case):
    import common
    import gen
    import vworld
    rng = random.Random(case['wseed'])
    prefix = 'vwu%d' % case['idx']
    layers = [{'name': 'Base', 'kind': 'class', 'bases': [],
               'hooks': {'setUp': 'ok', 'tearDown': 'ok',
                         'testSetUp': 'ok', 'testTearDown': 'ok'}},
              {'name': 'Top', 'kind': rng.choice(['class', 'inst']),
               'bases': ['Base'],
               'hooks': {'testSetUp': 'ok', 'testTearDown': 'ok'}}]
    tests = []
    tokens = {}        # token -> (test index, stream)
    swaps = []
    nested = []
    nodes = []         # suite children in run order
    cls_of = {}        # test index -> class name
    for i, kind in enumerate(case['seq']):
        t = {'name': 'test_%02d' % i, 'kind': kind, 'actions': []}
        if kind in UNIT_KINDS:
            t['kind'] = 'fail' if kind == 'u_fail' else 'pass'
        if kind.startswith('kbint_'):
            t['kind'] = 'pass'
            t['actions'].append({'ph': kind[6:], 'do': 'raise_base',
                                 'exc': 'KeyboardInterrupt'})
            t['actions'].append({'ph': 'body', 'do': 'probe_streams'})
            tests.append(t)
            nodes.append({'t': 'class', 'name': 'TestTop%02dk' % i,
                          'tests': [t], 'layer': 'Top'})
            cls_of[i] = nodes[-1]['name']
            continue
        if kind == 'subtests':
            t['subs'] = rng.choice([['F'], ['P', 'E'], ['F', 'E'],
                                    ['P', 'F', 'P'], ['S', 'F'], ['F', 'S'],
                                    ['S', 'E', 'S']])
        phases = reachable_phases(kind)
        n = 0
        for ph in phases:
            r = rng.random()
            if r < 0.45:
                continue
            stream = rng.choice(['stdout', 'stderr'])
            style = rng.choice(['nl', 'nl', 'nonl', 'buffer', 'rawbuf'])
            tok = 'TK%dx%s%dq' % (i, ph[0], n)
            n += 1
            text = tok + ('\n' if style == 'nl' else '')
            act = {
                'ph': ph, 'do': 'write',
                'stream': stream + ('.buffer' if style in ('buffer', 'rawbuf')
                                    else ''),
                'text': text}
            if style == 'rawbuf':
                # the token followed by bytes that no codec accepts
                act['tail_hex'] = rng.choice(['ff0a', 'fffe0a', 'c30a',
                                              '80', 'eda0800a'])
            t['actions'].append(act)
            tokens[tok] = (i, stream, ph, style)
        if case['buffer'] and not case['cli'] and kind in (
                'fail', 'error', 'teardown_error', 'cleanup_error',
                'body_teardown_error', 'pass') and rng.random() < 0.08:
            # after what it wrote so far the test runs the test runner
            # itself, buffered too (in-process, output captured, own tree):
            # the inner run has capture streams of its own
            t['actions'].append({'ph': 'body', 'do': 'nested_run',
                                 'argv': ['--buffer'],
                                 'fail': rng.random() < 0.5})
            nested.append(i)
        t['actions'].append({'ph': 'body', 'do': 'probe_streams'})
        if case['buffer'] and kind == 'pass' and rng.random() < 0.15:
            # a passing test that leaves its own StringIO installed (only
            # with --buffer: there the runner puts the real streams back);
            # everything it wrote must stay hidden, also from the reports of
            # later tests
            t['actions'].append({'ph': 'body_end', 'do': 'swap_stream',
                                 'stream': rng.choice(['stdout', 'stderr'])})
            swaps.append(i)
        tests.append(t)
        if kind in UNIT_KINDS:
            fx = {'u_skip': {'setUpClass': 'skip'},
                  'u_error': {'setUpClass': 'raise:ValueError'},
                  'u_tdfail': {'tearDownClass': 'raise:KeyError'},
                  'u_fail': {'setUpClass': 'ok', 'tearDownClass': 'ok'}}[kind]
            nodes.append({'t': 'unit', 'name': 'Unit%02d' % i, 'tests': [t],
                          'layer': 'Top', 'fixture': fx})
        elif nodes and nodes[-1]['t'] == 'class':
            nodes[-1]['tests'].append(t)
        else:
            name = 'TestTop' if not any(n['t'] == 'class' for n in nodes) \
                else 'TestTop%02d' % i
            nodes.append({'t': 'class', 'name': name, 'tests': [t],
                          'layer': 'Top'})
        cls_of[i] = nodes[-1]['name']
    spec = gen.simple_world(prefix, layers, {'Top': []})
    spec['modules'][0]['suite']['ch'] = nodes
    opts = {'verbose': case['verbose']}
    if case['buffer']:
        opts['buffer'] = True
    if case.get('sub'):
        opts['processes'] = 2
    # the XML formatting wrapper sits between the result and the formatter
    # that prints the captured output: a sixth of the runs go through it
    xml = rng.random() < 0.17
    xargv = []
    if xml:
        import vworld as _vw
        xdir = _vw.scratch_dir('c13xml-')
        xargv = ['--xml', xdir]
    stdin = None
    if case.get('pm'):
        from checks.c18 import ScriptedStdin
        stdin = ScriptedStdin()
        xargv = xargv + ['-D']
    try:
        w = common.run_world(spec, None, opts, extra_argv=xargv,
                             mode='cli' if case['cli'] else 'in',
                             stdin=stdin)
    finally:
        if xml:
            _vw.destroy(xdir)
    viol = []
    counters = {}

    def C(k, n=1):
        counters[k] = counters.get(k, 0) + n

    def V(rule, mech, **d):
        d.update(seq=case['seq'], opts=opts, cli=case['cli'])
        if len(viol) < 6:
            viol.append({'rule': rule, 'mech': mech, 'detail': d})

    kbint = case['seq'][-1].startswith('kbint_')
    if kbint:
        C('interrupted_runs')
        if case.get('pm'):
            C('interrupted_runs_post_mortem')
        if isinstance(w.raised, KeyboardInterrupt):
            C('interrupts_that_reached_the_caller')
            if case.get('pm'):
                C('interrupts_that_reached_the_caller_post_mortem')
            if w.r.streams_restored != (True, True):
                V('streams-not-original-after-run',
                  'buffer-not-restored-after-interrupt',
                  restored=w.r.streams_restored, pm=case.get('pm'))
        elif w.raised is not None:
            V('run-aborted', 'run-raised', tb=(w.raised_tb or '')[-700:])
        if w.raised is not None:
            return {'viol': viol, 'evals': 1, 'counters': counters}
    elif w.raised is not None:
        V('run-aborted', 'run-raised', tb=(w.raised_tb or '')[-700:])
        return {'viol': viol, 'evals': 1, 'counters': counters}
    text = w.out if case['cli'] else w.r.out
    if case['cli']:
        text = w.out + w.err
    modname = spec['modules'][0]['name']
    # ---------------- identity probes that work in every process: the
    # streams between tests are the objects that were there when the first
    # layer of that process was set up
    for e in w.events:
        if e['k'] in ('layer.testSetUp', 'layer.testTearDown') and \
                e.get('out_same') is not None:
            C('probes_vs_layer_setup')
            if case.get('sub'):
                C('probes_in_layer_subprocess')
            if e.get('out_same') is False or e.get('err_same') is False:
                V('streams-between-tests-not-those-at-layer-setup',
                  'buffer-not-restored-between-tests', where=e['k'],
                  layer=e.get('layer'), out=e.get('out_same'),
                  err=e.get('err_same'), sub=bool(case.get('sub')))
    # ---------------- identity probes (in-process only)
    if not case['cli']:
        for e in w.events:
            k = e['k']
            if k in ('layer.testSetUp', 'layer.testTearDown'):
                C('probes_between_tests')
                if e.get('out_is_orig') is False or \
                        e.get('err_is_orig') is False:
                    V('streams-not-original-between-tests',
                      'buffer-not-restored-between-tests', where=k,
                      layer=e.get('layer'), out=e.get('out_is_orig'),
                      err=e.get('err_is_orig'))
            elif k in ('test.setUp', 'test.body'):
                if case['buffer']:
                    C('probes_in_tests_buffered')
                    if e.get('out_is_orig') is True:
                        V('stdout-not-buffered-inside-test',
                          'buffer-not-effective', where=k, test=e.get('id'))
                else:
                    C('probes_unbuffered')
                    if e.get('out_is_orig') is False:
                        V('streams-replaced-without-buffer',
                          'nobuffer-stream-replaced', where=k,
                          test=e.get('id'))
        if w.r.streams_restored != (True, True):
            V('streams-not-original-after-run',
              'buffer-not-restored-after-run', restored=w.r.streams_restored)
    # ---------------- token attribution (a post-mortem run prints what
    # the debugger session prints: identity only)
    if case.get('pm'):
        pass
    elif case['buffer']:
        # positions of each test's first header / first token
        first_pos = {}
        for i, kind in enumerate(case['seq']):
            tid = '%s.%s.test_%02d' % (modname, cls_of[i], i)
            pat = re.compile(r'(Error|Failure) in test %s' % re.escape(
                vworld.test_str(tid)))
            m = pat.search(text)
            first_pos[i] = m.start() if m else None
        for tok, (i, stream, ph, style) in tokens.items():
            kind = case['seq'][i]
            n = text.count(tok)
            if kind in HIDDEN:
                C('tokens_hidden_checked')
                if n:
                    mech = 'buffer-hidden-token-shown'
                    if kind in ('skip_setup', 'skip_body') and \
                            ph in ('tearDown', 'cleanup'):
                        mech = 'buffer-skip-late-output-leaks'
                    V('output-of-non-failing-test-shown', mech, token=tok,
                      kind=kind, phase=ph, stream=stream, count=n)
            elif kind in SHOWN:
                C('tokens_shown_checked')
                if n != 1:
                    V('output-of-failing-test-not-shown-once',
                      'buffer-shown-token-count', token=tok, kind=kind,
                      phase=ph, stream=stream, style=style, count=n)
                    continue
                if case['cli']:
                    # stdout and stderr of a CLI run are separate pipes:
                    # no common order to judge positions
                    continue
                pos = text.index(tok)
                hp = first_pos.get(i)
                if hp is None or pos < hp:
                    V('output-before-own-header', 'buffer-attribution',
                      token=tok, kind=kind, phase=ph, header=hp, pos=pos)
                # next test's first header or token
                nxt = [p for j, p in first_pos.items()
                       if j > i and p is not None]
                nxt += [text.index(t2) for t2, (j, *_r) in tokens.items()
                        if j > i and t2 in text]
                if nxt and pos > min(nxt):
                    V('output-after-next-test', 'buffer-attribution',
                      token=tok, kind=kind, phase=ph, pos=pos,
                      next=min(nxt))
            else:
                if n > 1:
                    V('output-shown-more-than-once',
                      'buffer-shown-token-count', token=tok, kind=kind,
                      count=n)
    else:
        for tok, (i, stream, ph, style) in tokens.items():
            C('tokens_unbuffered_checked')
            if text.count(tok) != 1:
                V('unbuffered-output-lost-or-duplicated',
                  'nobuffer-token-count', token=tok, count=text.count(tok))
    multi = sum(1 for k in case['seq'] if k in (
        'body_teardown_error', 'fail_teardown_error', 'subtests'))
    C('multi_event_tests', multi)

    def cls(k):
        return 'H' if k in HIDDEN else 'S'
    nt = any(cls(a) != cls(b) for a, b in zip(case['seq'], case['seq'][1:])) \
        and bool(tokens)
    sig = None
    if nt:
        sig = [case['seq'], sorted((v[0], v[1], v[2], v[3])
                                   for v in tokens.values()), opts]
    C('stream_swapping_tests', len(swaps))
    C('buffered_tests_running_a_buffered_inner_run', sum(
        1 for e in w.events if e['k'] == 'nested.run'))
    common.judge_nested(w.events, V, C)
    C('class_fixture_events', sum(
        1 for e in w.events if e['k'].startswith('class.')))
    C('unit_elements', sum(1 for k in case['seq'] if k in UNIT_KINDS))
    C('runs_through_xml_wrapper', 1 if xml else 0)
    return {'viol': viol, 'evals': 1, 'sig': sig, 'counters': counters,
            'sample': {'seq': case['seq'], 'opts': opts,
                       'tokens': {k: list(v) for k, v in
                                  list(tokens.items())[:5]}}}
