"""C11 - shuffle is a seed-determined permutation inside each layer."""
import os
import random
import re
import sys

LEVEL = 'exploration'
RULE = ('worlds with 0-4 layers (+ optional unit layer) x 0-12 tests per '
        'layer; seeds {0, 1, 42, 2**31, 2**63+5, -7, random}; for one seed '
        'the per-layer execution order (test.setUp facts, per pid) is '
        'recorded for: two sequential runs, --list-tests, -j N, a resumed '
        'run (NotImplementedError tear-down), a --layer subset run, a CLI '
        'run on another installed CPython (3.9-3.13), and - for runs without '
        '--shuffle-seed - a re-run with the seed the runner reported. Oracle: '
        'all orders identical per layer; per-layer multiset == unshuffled '
        'discovery multiset (nothing dropped/duplicated/moved across layers; '
        'also a contract on Shuffle.global_setup); seed line present and '
        'equal to the requested seed. Non-trivial = a layer with >=3 tests '
        'whose shuffled order differs from discovery order; distinct by '
        '(world shape, seed).')
ASSUMPTIONS = ['no particular shuffling algorithm is modelled (the statement '
               'pins none)',
               'interpreters: CPython 3.9.18, 3.10.13, 3.11.7, 3.12.1, 3.13.0']
FLOORS = {'order_comparisons': 600, 'nontrivial_layers': 150,
          'reported_seed_reruns': 20, 'other_python_runs': 20,
          'par_runs': 30, 'layer_subset_runs': 30, 'resume_runs': 10,
          'list_par_runs': 30, 'list_subset_runs': 10,
          'hostile_rng_runs': 40, 'hostile_rng_yields': 400,
          'multi_directory_worlds': 30, 'other_hashseed_runs': 60,
          'shuffle_contract_evals': 300,
          'worlds_with_parametrised_instances': 20,
          'seed_and_switch_apart_runs': 40}
BATCH_TIMEOUT = 400

PYTHONS = ['/root/.pyenv/versions/3.9.18/bin/python',
           '/root/.pyenv/versions/3.10.13/bin/python',
           '/root/.pyenv/versions/3.11.7/bin/python',
           '/root/.pyenv/versions/3.13.0/bin/python']
SEEDS = [0, 1, 42, 2 ** 31, 2 ** 63 + 5, -7]


def batch_size(tier):
    return 4


def cases(tier, seed):
    rng = random.Random(seed * 9973 + 11)
    n = 240 if tier == 'quick' else 2500
    out = []
    for i in range(n):
        s = rng.choice(SEEDS + [rng.randrange(10 ** 9)] * 3 + [None] * 3)
        out.append({'idx': i, 'wseed': rng.randrange(1 << 30), 'seed': s})
    return out


def orders(events, model, mult=None):
    """Per layer the ids in execution order (an id once - unless the world
    has parametrised cases: equal instances sharing an id, mult[id] of
    them)."""
    per = {}
    for e in events:
        if e['k'] == 'test.setUp':
            L = model.layer_of_test.get(e['id'])
            lst = per.setdefault(L, [])
            if e['id'] not in lst or (mult and e['id'] in mult):
                lst.append(e['id'])
    return per


def run_case(case):
    import common
    import gen
    import oracles
    import runcase
    import vworld
    rng = random.Random(case['wseed'])
    # (the shuffle walks the layers in the order of their names: half of the
    # worlds have layers that sort after zope.testrunner.layer.UnitTests)
    prefix = '%s%d' % (rng.choice(['vwh', 'zzh']), case['idx'])
    nl = rng.randint(0, 4)
    layers = gen.random_layer_graph(rng, nmax=nl, nmin=nl, p_hook=0.6) \
        if nl else []
    tbl = {}
    keys = [ls['name'] for ls in layers]
    if not keys or rng.random() < 0.5:
        keys.append(None)
    for k in keys:
        n = rng.choice([0, 1, 2, 3, 5, 8, 12])
        if n:
            tbl[k] = [{'name': 'test_%02d' % i, 'kind': 'pass'}
                      for i in range(n)]
    if not tbl:
        tbl[keys[0]] = [{'name': 'test_00', 'kind': 'pass'}]
    # two modules so that a layer's tests come from several files
    layout = [('%s_p.tests.test_a' % prefix, '%s_p/tests/test_a.py' % prefix),
              ('%s_p.tests.test_b' % prefix, '%s_p/tests/test_b.py' % prefix)]
    spec = gen.simple_world(prefix, layers, tbl, module_layout=layout)
    multidir = rng.random() < 0.3
    xpath = []
    if multidir:
        # the tests of every layer come from three search directories
        # (--path given several times): split each class in three
        mods = []
        for di, d in enumerate('abc'):
            nodes = []
            for m in spec['modules']:
                for node in m['suite']['ch']:
                    share = node['tests'][di::3]
                    if share:
                        nodes.append(dict(node, name=node['name'] + d,
                                          tests=share))
            if nodes:
                mods.append({
                    'name': '%s_p%s.tests.test_%s' % (prefix, d, d),
                    'file': 'dir-%s/%s_p%s/tests/test_%s.py' % (
                        d, prefix, d, d),
                    'suite': {'t': 'suite', 'ch': nodes}})
                xpath.append('dir-%s' % d)
        spec['modules'] = mods
    # the classic parametrised test case in a quarter of the worlds: two or
    # three instances of one class for every method - equal to one another,
    # same id(), told apart by str() only; each is a test of its own
    mult = {}
    if not multidir and rng.random() < 0.25:
        cands = [(m, node) for m in spec['modules']
                 for node in m['suite']['ch']
                 if node['t'] == 'class' and node['tests']]
        if cands:
            m, node = rng.choice(cands)
            node['params'] = rng.choice([['a', 'b'], ['a', 'b', 'c']])
            for ts in node['tests']:
                mult['%s.%s.%s' % (m['name'], node['name'], ts['name'])] = \
                    len(node['params'])
    model = oracles.LayerModel(spec)
    disc = {}
    for lname, tids in vworld.expected_tests(spec, {}).items():
        disc[model.short(lname)] = [t for t in tids
                                    for _ in range(mult.get(t, 1))]
    viol = []
    counters = {}

    def C(k, n=1):
        counters[k] = counters.get(k, 0) + n

    def V(rule, mech, **d):
        if len(viol) < 8:
            viol.append({'rule': rule, 'mech': mech, 'detail': d})

    if mult:
        C('worlds_with_parametrised_instances')
    root = vworld.materialise(spec)
    if xpath:
        C('multi_directory_worlds')
        _rw = common.run_world

        class _Common:
            """common.run_world with the extra --path options added."""
            def __getattr__(self, k):
                return getattr(sys.modules['common'], k)

            @staticmethod
            def run_world(spec, plan=None, opts=None, extra_argv=(), **kw):
                extra = list(extra_argv)
                for d in xpath:
                    extra += ['--path', os.path.join(root, d)]
                return _rw(spec, plan, opts, extra_argv=extra, **kw)
        common = _Common()
    seed = case['seed']
    import ztr_monitor
    ev0 = ztr_monitor.COUNTERS.get('eval.shuffle', 0)
    try:
        opts = {'shuffle': True}
        if seed is not None:
            opts['shuffle_seed'] = seed
        w0 = common.run_world(spec, None, opts, root=root)
        if w0.raised is not None:
            V('run-aborted', 'run-raised', tb=(w0.raised_tb or '')[-600:],
              seed=seed)
            return {'viol': viol, 'evals': 1, 'counters': counters}
        viol.extend(w0.cviol[:3])
        rep_seed = w0.info['seed']
        if rep_seed is None:
            V('seed-not-reported', 'shuffle-seed-line', out=w0.out[-400:])
            return {'viol': viol, 'evals': 1, 'counters': counters}
        if seed is not None and rep_seed != seed:
            V('reported-seed-differs', 'shuffle-seed-line', want=seed,
              got=rep_seed)
        if seed is None:
            C('reported_seed_reruns')
        ref = orders(w0.events, model, mult)
        # permutation inside each layer
        for L, tids in disc.items():
            got = ref.get(L, [])
            if sorted(got) != sorted(tids):
                V('layer-multiset-changed', 'shuffle-not-permutation',
                  layer=L, got=got, want=tids, seed=rep_seed)
        for L in ref:
            if L not in disc:
                V('layer-appeared', 'shuffle-not-permutation', layer=L)
        v, st = oracles.layer_machine(w0.events, spec)
        viol.extend(v[:2])
        nontriv = [L for L, tids in disc.items()
                   if len(tids) >= 3 and ref.get(L) != tids]
        C('nontrivial_layers', len(nontriv))
        C('shuffled_layers_ge3', sum(1 for t in disc.values() if len(t) >= 3))

        def compare(w, what, only=None):
            if w.raised is not None or getattr(w, 'timed_out', False):
                V('run-aborted', 'run-raised', what=what,
                  tb=(w.raised_tb or '')[-600:])
                return
            viol.extend(w.cviol[:2])
            if what != 'list' and w.info['seed'] != rep_seed:
                V('reported-seed-differs', 'shuffle-seed-line', what=what,
                  want=rep_seed, got=w.info['seed'])
            if what == 'list':
                got = {}
                for lname, tl in runcase.parse_listing(w.out):
                    got[model.short(lname)] = [vworld.id_from_str(s)
                                               for s in tl]
            else:
                got = orders(w.events, model, mult)
            for L, tids in ref.items():
                if only is not None and L not in only:
                    if got.get(L):
                        V('unselected-layer-ran', 'shuffle-layer-filter',
                          layer=L, what=what)
                    continue
                C('order_comparisons')
                if got.get(L, []) != tids:
                    V('order-differs-for-same-seed', 'shuffle-order-' + what,
                      what=what, layer=L, seed=rep_seed, ref=tids[:10],
                      got=got.get(L, [])[:10])

        # a clock-seeded run whose layers go to subprocesses: every child
        # draws a seed of its own, so every child-run layer must come with
        # the seed that reproduces its order
        if seed is None and len(disc) >= 2:
            N = rng.randint(2, len(disc) + 1)
            wj = common.run_world(spec, None, {'shuffle': True,
                                               'processes': N}, root=root)
            C('clock_seed_par_runs')
            if wj.raised is None:
                gotj = orders(wj.events, model, mult)
                for blk in wj.info['layers']:
                    L = model.short(blk['name'])
                    if len(gotj.get(L, [])) < 3:
                        continue
                    m = blk.get('seed')
                    C('child_seed_lines_checked')
                    if m is None:
                        V('seed-not-reported-for-a-layer-run-in-a-'
                          'subprocess', 'shuffle-seed-line', layer=L,
                          block=blk['lines'][-6:])
                        continue
                    pat = 'UnitTests$' if L == 'UNIT' else \
                        vworld.layer_pattern(spec, L)
                    wr2 = common.run_world(
                        spec, None, {'shuffle_seed': m, 'layer': [pat]},
                        root=root)
                    if wr2.raised is None and \
                            orders(wr2.events, model, mult).get(L) != gotj[L]:
                        V('reported-seed-does-not-reproduce-the-order',
                          'shuffle-order-reported-seed', layer=L, seed=m,
                          ran=gotj[L][:8],
                          rerun=orders(wr2.events, model, mult).get(L, [])[:8])
                    break
        sopts = {'shuffle_seed': rep_seed}
        # same seed again, sequential
        compare(common.run_world(spec, None, sopts, root=root), 'seq2')
        # the seed in the defaults of the script, --shuffle typed on the
        # command line (and the other way round)
        if rng.random() < 0.35:
            if rng.random() < 0.5:
                o = {'shuffle': True, 'shuffle_seed_alone': rep_seed,
                     '_defaults': ['shuffle_seed_alone'], '_order': 3}
            else:
                o = {'shuffle': True, 'shuffle_seed_alone': rep_seed,
                     '_defaults': ['shuffle'], '_order': 3}
            if rng.random() < 0.4 and len(disc) >= 1:
                o['processes'] = rng.randint(2, len(disc) + 1)
            compare(common.run_world(spec, None, o, root=root),
                    'seed-and-switch-apart')
            C('seed_and_switch_apart_runs')
        # same seed while another thread of the process uses the global
        # random functions (and the GIL is handed over inside the shuffle)
        if rng.random() < 0.4:
            h0 = ztr_monitor.COUNTERS.get('shuffle.yields', 0)
            as_list = rng.random() < 0.5
            compare(common.run_world(
                spec, None, sopts, root=root,
                extra_argv=['--list-tests'] if as_list else [],
                env_extra={'ZTR_SHUFFLE_HOSTILE': '1'}),
                'list' if as_list else 'hostile-rng')
            C('hostile_rng_runs')
            C('hostile_rng_yields',
              ztr_monitor.COUNTERS.get('shuffle.yields', 0) - h0)
        # listing
        compare(common.run_world(spec, None, sopts,
                                 extra_argv=['--list-tests'], root=root),
                'list')
        # the listing under the other option vectors: -j N (the parent of
        # a parallel run lists without spawning) and a --layer subset
        if len(disc) >= 1 and rng.random() < 0.5:
            N = rng.randint(2, len(disc) + 1)
            compare(common.run_world(spec, None, dict(sopts, processes=N),
                                     extra_argv=['--list-tests'], root=root),
                    'list')
            C('list_par_runs')
        if len(disc) >= 2 and rng.random() < 0.3:
            sub = rng.sample(sorted(disc), rng.randint(1, len(disc) - 1))
            pats = ['UnitTests$' if s == 'UNIT' else
                    vworld.layer_pattern(spec, s) for s in sub]
            wl = common.run_world(spec, None, dict(sopts, layer=pats),
                                  extra_argv=['--list-tests'], root=root)
            listed = {model.short(ln) for ln, _tl in
                      runcase.parse_listing(wl.out)}
            if listed - set(sub):
                V('unselected-layer-listed', 'shuffle-layer-filter',
                  layers=sorted(listed - set(sub)))
            compare(wl, 'list', only=set(sub) & set(ref))
            C('list_subset_runs')
        # -j N
        if len(disc) >= 1 and rng.random() < 0.45:
            N = rng.randint(2, len(disc) + 1)
            compare(common.run_world(spec, None, dict(sopts, processes=N),
                                     root=root), 'par')
            C('par_runs')
        # resumed children
        if layers and len(disc) >= 2 and rng.random() < 0.4:
            plan = {'layers': {ls['name']: {'tearDown': 'nie'}
                               for ls in layers}}
            wr = common.run_world(spec, plan, sopts, root=root)
            parent = next((e['pid'] for e in wr.events
                           if e['k'] == 'run.enter'), None)
            if any(e['k'] == 'test.setUp' and e['pid'] != parent
                   for e in wr.events):
                C('resume_runs')
            compare(wr, 'resume')
        # --layer subset
        if len(disc) >= 2 and rng.random() < 0.6:
            sub = rng.sample(sorted(disc), rng.randint(1, len(disc) - 1))
            pats = ['UnitTests$' if s == 'UNIT' else
                    vworld.layer_pattern(spec, s) for s in sub]
            compare(common.run_world(spec, None, dict(sopts, layer=pats),
                                     root=root), 'layer-subset', only=set(sub))
            C('layer_subset_runs')
        # the unit tests deselected with -f
        if 'UNIT' in disc and len(disc) >= 2 and rng.random() < 0.5:
            as_list = rng.random() < 0.5
            compare(common.run_world(spec, None, dict(sopts, non_unit=True),
                                     root=root,
                                     extra_argv=['--list-tests']
                                     if as_list else []),
                    'list' if as_list else 'layer-subset',
                    only=set(disc) - {'UNIT'})
            C('non_unit_runs')
        # other interpreter (and another string-hash seed)
        if rng.random() < 0.3:
            py = rng.choice(PYTHONS)
            if os.path.exists(py):
                compare(common.run_world(
                    spec, None, sopts, mode='cli', python=py, root=root,
                    env_extra={'PYTHONHASHSEED': str(rng.randrange(1, 999))}),
                    'python')
                C('other_python_runs')
        # same interpreter, other string-hash seeds (separate processes)
        if rng.random() < (0.6 if xpath else 0.15):
            for hs in rng.sample(range(1, 500), 2):
                compare(common.run_world(
                    spec, None, sopts, mode='cli', root=root,
                    extra_argv=['--list-tests'] if hs % 2 else [],
                    env_extra={'PYTHONHASHSEED': str(hs)}),
                    'list' if hs % 2 else 'hashseed')
                C('other_hashseed_runs')
    finally:
        vworld.destroy(root)
        C('shuffle_contract_evals',
          ztr_monitor.COUNTERS.get('eval.shuffle', 0) - ev0)
    sig = None
    if nontriv:
        sig = [common.shape_of(spec), rep_seed if seed is not None else 'clock']
    return {'viol': viol, 'evals': 1, 'sig': sig, 'counters': counters,
            'sample': {'seed': seed, 'reported': rep_seed,
                       'layers': {L: len(t) for L, t in disc.items()},
                       'first_layer_order': next(iter(ref.values()), [])[:6]}}
