"""C08 - filter predicate = any positive AND no negative (search mode)."""
import itertools
import os
import random
import re

LEVEL = 'exploration'
RULE = ('exhaustive: all pattern lists of length <=3 over a 14-pattern '
        'alphabet x all names over {a,b,.} up to length 4, compared with the '
        'algebraic spec and with metamorphic rules (add positive never '
        'deselects, add negated never selects, order/duplication invariant); '
        'random lists of regex fragments of real test ids; end-to-end runs '
        'with -t/-m/--layer where the executed tests/imported modules/run '
        'layers must equal what the spec accepts. Non-trivial = list mixes '
        'positive and negated patterns or has only negated ones; distinct by '
        '(pattern list) resp. (world shape, options).')
ASSUMPTIONS = ["Python's re.search is the trusted matcher"]
FLOORS = {'accept_evals': 50000, 'e2e_runs': 20, 'metamorphic': 10000}
BATCH_TIMEOUT = 600

ALPHABET = ['a', 'b', 'ab', '^a', 'b$', 'a|b', '.', '',
            '!a', '!b', '!^a', '!b$', '!.', '!']
# patterns that are only independent of one another when each is compiled
# and applied on its own: inline flags, back-references, named groups,
# verbose mode, a dangling alternation, a look-ahead
ALPHABET2 = ['(?i)A', r'(a)\1', '(?P<n>b)a', '(?P<n>a)b', '(?x)a b', 'a|',
             'B', r'(?s)a.b', '(?=ab)a',
             '!(?i)B', r'!(b)\1', '!(?P<n>a)a', '!b|', '!A',
             # only the first '!' is the negation marker: the rest is the
             # regular expression (no candidate name contains a '!')
             '!!a', '!!', '!!!b']


def EXHAUSTIVE(tier):
    return True


def batch_size(tier):
    return 1


def names_upto(k):
    # candidate names are test ids, dotted module names and layer names:
    # never empty (the implied "everything" pattern is '.', which by design
    # matches every non-empty name)
    out = []
    for n in range(1, k + 1):
        out += [''.join(t) for t in itertools.product('ab.', repeat=n)]
    return out


def cases(tier, seed):
    out = []
    # length<=2 lists: one chunk; length 3: 14 chunks by first pattern
    out.append({'kind': 'enum', 'first': None})
    for p in range(len(ALPHABET)):
        out.append({'kind': 'enum', 'first': p})
    out.append({'kind': 'enum', 'first': None, 'alpha': 2})
    for p in range(len(ALPHABET2)):
        out.append({'kind': 'enum', 'first': p, 'alpha': 2})
    nr = 16 if tier == 'thorough' else 4
    for k in range(nr):
        out.append({'kind': 'random', 'seed': seed * 100 + k,
                    'count': 4000 if tier == 'thorough' else 1500})
    ne = 64 if tier == 'thorough' else 12
    for k in range(ne):
        out.append({'kind': 'e2e', 'seed': seed * 1000 + k,
                    'count': 20 if tier == 'thorough' else 14})
    return out


def check_list(bff, pats, names, stats, viol, model):
    try:
        accept = bff(list(pats))
    except re.error as e:
        # legitimate only if one of the patterns is not a regex by itself
        try:
            for q in pats:
                re.compile(q[1:] if q.startswith('!') else q)
        except re.error:
            return
        stats['accept_evals'] += 1
        viol.append({'rule': 'valid-patterns-rejected',
                     'mech': 'filter-spec',
                     'detail': {'patterns': list(pats), 'error': str(e)}})
        return
    res = {}
    for nm in names:
        got = bool(accept(nm))
        stats['accept_evals'] += 1
        want = model(list(pats), nm)
        res[nm] = got
        if got != want:
            viol.append({'rule': 'accept!=spec', 'mech': 'filter-spec',
                         'detail': {'patterns': list(pats), 'name': nm,
                                    'got': got, 'want': want}})
    return res


def metamorphic(bff, pats, names, base, stats, viol, rng):
    """Order / duplication invariance, monotonicity."""
    if base is None:
        return
    perm = list(pats)
    rng.shuffle(perm)
    dup = perm + [rng.choice(perm)] if perm else perm
    acc2 = bff(dup)
    for nm in names:
        stats['metamorphic'] += 1
        if bool(acc2(nm)) != base[nm]:
            viol.append({'rule': 'order/duplication', 'mech': 'filter-order',
                         'detail': {'patterns': list(pats), 'variant': dup,
                                    'name': nm}})
    has_pos = any(not p.startswith('!') for p in pats)
    extra_pos = rng.choice(['a', 'b$', '^a.', 'zz'])
    extra_neg = rng.choice(['!a', '!b$', '!^a.', '!zz'])
    if has_pos:
        # (with only negated patterns "everything" is implied, so adding the
        # first positive pattern legitimately narrows; the statement's
        # monotonicity is about lists that already have a positive pattern)
        accp = bff(list(pats) + [extra_pos])
        for nm in names:
            stats['metamorphic'] += 1
            if base[nm] and not accp(nm):
                viol.append({'rule': 'add-positive-deselects',
                             'mech': 'filter-monotone',
                             'detail': {'patterns': list(pats),
                                        'added': extra_pos, 'name': nm}})
    accn = bff(list(pats) + [extra_neg])
    for nm in names:
        stats['metamorphic'] += 1
        if not base[nm] and accn(nm) and (has_pos or pats):
            viol.append({'rule': 'add-negated-selects',
                         'mech': 'filter-monotone',
                         'detail': {'patterns': list(pats),
                                    'added': extra_neg, 'name': nm}})


def run_case(case):
    import vworld
    import zope.testrunner.filter as zf
    import zope.testrunner.find as zfind
    import ztr_monitor
    stats = {'accept_evals': 0, 'metamorphic': 0, 'lists': 0,
             'nontrivial': 0, 'e2e_runs': 0}
    viol = []
    kind = case['kind']
    sigs = []
    sample = None
    # both binding sites must be the real function (wrapped by the monitor)
    bffs = [zf.build_filtering_func, zfind.build_filtering_func]
    if kind == 'enum':
        names = names_upto(4)
        alpha = ALPHABET
        if case.get('alpha') == 2:
            alpha = ALPHABET2
            names = [''.join(t) for n in (1, 2, 3)
                     for t in itertools.product('abAB', repeat=n)] + \
                ['a\nb', 'a b', 'ab a']
        rng = random.Random(1)
        if case['first'] is None:
            lists = [()] + [(a,) for a in alpha] + \
                list(itertools.product(alpha, repeat=2))
        else:
            f = alpha[case['first']]
            lists = [(f,) + t for t in itertools.product(alpha, repeat=2)]
        for li, pats in enumerate(lists):
            bff = bffs[li % 2]
            stats['lists'] += 1
            base = check_list(bff, pats, names, stats, viol, vworld.selected)
            if li % 4 == 0 and pats:
                metamorphic(bff, pats, names, base, stats, viol, rng)
            neg = [p for p in pats if p.startswith('!')]
            if neg and (len(neg) == len(pats) or len(neg) < len(pats)):
                stats['nontrivial'] += 1
            if len(viol) > 30:
                break
        sample = {'kind': 'enum', 'first': case['first'],
                  'lists': len(lists), 'names': len(names),
                  'example': list(lists[-1])}
        return {'viol': viol[:15], 'evals': stats['accept_evals'],
                'distinct_count': stats['nontrivial'], 'counters': stats,
                'sample': sample}
    if kind == 'random':
        rng = random.Random(case['seed'])
        ids = ['test_%s (vw_p.tests.test_%s.Test%s.test_%s)' % (a, b, c, a)
               for a in ('x', 'y1', 'zz') for b in ('m', 'n2')
               for c in ('A', 'Bb')]
        ids += ['vw_p.tests.test_m', 'vw_layers.LayerA', 'vw_layers.B',
                'zope.testrunner.layer.UnitTests', 'x\ny', 'a.b', 'AB']
        frags = ['test_', 'x', 'y1', r'\.', 'Test[AB]', '^test_x', r'\)$',
                 'tests', 'm|n', '(zz)+', 'n2.*A', '[^x]$', 'Unit', '',
                 '.', 'B+', r'\bA\b', 'test_y1 ', 'vw_', '(?i)testa']
        for _ in range(case['count']):
            k = rng.randint(0, 5)
            pats = []
            for _j in range(k):
                p = rng.choice(frags)
                if rng.random() < 0.4:
                    p = '!' + p
                pats.append(p)
            stats['lists'] += 1
            bff = bffs[rng.randrange(2)]
            base = check_list(bff, pats, ids, stats, viol, vworld.selected)
            if pats:
                metamorphic(bff, pats, ids, base, stats, viol, rng)
            if any(p.startswith('!') for p in pats):
                stats['nontrivial'] += 1
                sigs.append(sorted(pats))
        sample = {'kind': 'random', 'example': pats}
        return {'viol': viol[:15], 'evals': stats['accept_evals'],
                'sig': {'multi': sigs[:2000]} if sigs else None,
                'counters': stats, 'sample': sample}
    return run_e2e(case, stats, viol)


def argv_without_positional(opts, positional):
    """The option vector with the patterns that are given positionally
    taken out of the -m / -t lists again."""
    import vworld
    o = dict(opts)
    if positional:
        if positional[0] != '.':
            o['module'] = list(o.get('module') or [])[:-1]
        if len(positional) > 1:
            o['test'] = list(o.get('test') or [])[:-1]
    return vworld.opts_to_argv(o)


def run_e2e(case, stats, viol):
    import gen
    import runcase
    import vworld
    import ztr_monitor
    rng = random.Random(case['seed'])
    sigs = []
    sample = None
    for k in range(case['count']):
        prefix = 'vwf%d_%d' % (case['seed'], k)
        # (four graphs in ten have instance layers with names that are no
        # identifiers - among them names that differ only where one has a
        # dot: db.Layer / db_Layer / dbxLayer)
        layers = gen.random_layer_graph(rng, nmax=4, nmin=2, p_exotic=0.4)
        tbl = {}
        for ls in layers + [None]:
            if ls is not None and rng.random() < 0.2:
                continue
            nm = ls['name'] if ls else None
            tbl[nm] = [{'name': 'test_%s' % rng.choice('abcxyz') + str(i),
                        'kind': 'pass'} for i in range(rng.randint(1, 4))]
        spec = gen.simple_world(prefix, layers, tbl)
        stitched = rng.random() < 0.35
        extra_argv = []
        if stitched:
            # a directory that is knit into a package from elsewhere
            # (--package-path DIR PACKAGE): its test modules are named
            # PACKAGE.<relative name>, and that is the name -m filters
            kp = prefix + '_kp'
            spec.setdefault('extra_files', []).append({
                'file': kp + '/__init__.py',
                'content': 'import os\n__path__.append(os.path.join('
                           'os.path.dirname(os.path.dirname(__file__)), '
                           '"x-stitched"))\n'})
            for sub in ('sub', 'ext'):
                spec['modules'].append({
                    'name': '%s.%s.tests' % (kp, sub),
                    'file': 'x-stitched/%s/tests.py' % sub,
                    'suite': {'t': 'suite', 'ch': [{
                        't': 'class', 'name': 'TestK' + sub,
                        'tests': [{'name': 'test_k%d' % i, 'kind': 'pass'}
                                  for i in range(rng.randint(1, 2))]}]}})
            stats['stitched_worlds'] = stats.get('stitched_worlds', 0) + 1
        all_ids = [vworld.test_str(t[0]) for t in vworld.iter_tests(spec)]
        mods = [m['name'] for m in spec['modules']]
        lnames = [vworld.full_layer_name(spec, l) for l in tbl]

        def pick(pool):
            if rng.random() < 0.12:
                # the empty pattern matches every name
                return rng.choice(['', '', '!'])
            s = rng.choice(pool)
            a = rng.randrange(len(s))
            b = rng.randint(a + 1, min(len(s), a + 8))
            frag = re.escape(s[a:b])
            r = rng.random()
            if r < 0.15:
                frag = '^' + re.escape(s[:b])
            elif r < 0.3:
                frag = re.escape(s[a:]) + '$'
            elif r < 0.45 and b - a >= 2:
                # regex syntax made of characters that mean something to
                # command-line conventions too (commas, '=', blanks, ';'):
                # a pattern is one regular expression, taken as it is
                c = re.escape(s[b - 1])
                head = re.escape(s[a:b - 1])
                frag = rng.choice([head + c + '{1,2}', head + c + '{1,}',
                                   head + '[%s,;]' % c, head + '[ =%s]' % c,
                                   '(?:%s){1,3}' % frag, head + c + '{0,1}$'
                                   if b == len(s) else head + c + '{1,1}'])
                stats['patterns_with_commas_and_the_like'] = \
                    stats.get('patterns_with_commas_and_the_like', 0) + 1
            if rng.random() < 0.4:
                frag = '!' + frag
            return frag
        def pick_pkg():
            # a pattern that ends exactly at a package boundary of a module
            # name ('!pkg\\.tests$'): it says nothing about the modules
            # below that package
            parts = rng.choice(mods).split('.')
            pre = '.'.join(parts[:rng.randint(1, max(1, len(parts) - 1))])
            frag = re.escape(pre[-rng.randint(2, len(pre)):]) + '$'
            return ('!' if rng.random() < 0.7 else '') + frag
        opts = {}
        if rng.random() < 0.8:
            opts['test'] = [pick(all_ids) for _ in range(rng.randint(1, 3))]
        if rng.random() < 0.5:
            opts['module'] = [pick(mods) for _ in range(rng.randint(1, 2))]
        if rng.random() < 0.25:
            opts['module'] = (opts.get('module') or []) + [pick_pkg()]
            stats['package_boundary_patterns'] = \
                stats.get('package_boundary_patterns', 0) + 1
        if rng.random() < 0.5:
            opts['layer'] = [pick(lnames) for _ in range(rng.randint(1, 2))]
        # the filters work together with the level selection (a level <= 0
        # means "every level"): some classes sit on level 2 or 3 and a third
        # of the runs say something about levels
        for m in spec['modules']:
            for ch in m['suite']['ch']:
                if ch['t'] == 'class' and rng.random() < 0.3:
                    ch['level'] = rng.choice([2, 3])
        if rng.random() < 0.4:
            k, v = rng.choice([('at_level', 0), ('at_level', -1),
                               ('at_level', 0), ('at_level', 2),
                               ('all', True), ('only_level', 1),
                               ('only_level', 2)])
            opts[k] = v
            stats['level_option_runs'] = \
                stats.get('level_option_runs', 0) + 1
        # the legacy positional filters: [module_filter [test_filter]]
        positional = []
        def pick_nonempty(pool):
            # (an empty positional argument is "not given" for argparse's
            # optional positionals; the empty pattern is exercised with -t)
            while True:
                x = pick(pool)
                if x not in ('', '!'):
                    return x
        if rng.random() < 0.3:
            mf = rng.choice(['.', pick_nonempty(mods), pick_nonempty(mods)])
            positional = [mf]
            if mf != '.':
                opts['module'] = (opts.get('module') or []) + [mf]
            if rng.random() < 0.6:
                tf = pick_nonempty(all_ids)
                positional.append(tf)
                opts['test'] = (opts.get('test') or []) + [tf]
            stats['positional_filter_runs'] = \
                stats.get('positional_filter_runs', 0) + 1
        want = vworld.expected_tests(spec, opts)
        root = vworld.materialise(spec)
        if stitched:
            extra_argv = ['--package-path',
                          os.path.join(root, 'x-stitched'), kp]
        try:
            nv = len(ztr_monitor.VIOLATIONS)
            ev0 = ztr_monitor.COUNTERS.get('eval.accept', 0)
            par = []
            if layers and rng.random() < 0.25:
                # the layers in subprocesses: each of them applies the
                # filters again and picks its own layer by name
                par = ['-j', str(rng.randint(2, 3))]
                stats['e2e_runs_with_layer_subprocesses'] = \
                    stats.get('e2e_runs_with_layer_subprocesses', 0) + 1
            r = runcase.run_inproc(
                ['--path', root] + extra_argv + par +
                argv_without_positional(opts, positional) + positional,
                os.path.join(root, 'world.json'),
                os.path.join(root, 'trace.jsonl'), purge=(prefix,))
            stats['e2e_runs'] += 1
            stats['accept_evals'] += \
                ztr_monitor.COUNTERS.get('eval.accept', 0) - ev0
            if r.raised is not None:
                viol.append({'rule': 'run-raised', 'mech': 'run-raised',
                             'detail': {'tb': r.raised_tb[-600:],
                                        'opts': opts}})
                continue
            for name, detail in ztr_monitor.VIOLATIONS[nv:]:
                viol.append({'rule': 'contract:' + name,
                             'mech': 'filter-spec', 'detail': detail})
            ran = sorted(e['id'] for e in r.events if e['k'] == 'test.body')
            exp = sorted(t for ts in want.values() for t in ts)
            stats['stitched_tests_ran'] = stats.get('stitched_tests_ran', 0) \
                + sum(1 for t in ran if '_kp.' in t)
            if ran != exp:
                viol.append({'rule': 'executed!=accepted',
                             'mech': 'filter-e2e',
                             'detail': {'opts': opts,
                                        'extra': sorted(set(ran) - set(exp)),
                                        'missing': sorted(set(exp) - set(ran)),
                                        'spec': spec}})
            imported = {e['mod'] for e in r.events
                        if e['k'] == 'mod.import' and not e.get('layers')}
            wantmods = {m for m in mods
                        if vworld.selected(opts.get('module') or ['.'], m)}
            if imported != wantmods:
                viol.append({'rule': 'imported!=accepted-modules',
                             'mech': 'filter-e2e-module',
                             'detail': {'opts': opts,
                                        'imported': sorted(imported),
                                        'want': sorted(wantmods)}})
            info = runcase.parse_output(r.out)
            ran_layers = [l['name'] for l in info['layers']]
            if sorted(ran_layers) != sorted(want):
                viol.append({'rule': 'layers-run!=accepted',
                             'mech': 'filter-e2e-layer',
                             'detail': {'opts': opts, 'ran': ran_layers,
                                        'want': sorted(want)}})
            pats = sum((opts.get(k2) or [] for k2 in
                        ('test', 'module', 'layer')), [])
            if any(p.startswith('!') for p in pats) and 0 < len(exp) < len(all_ids):
                sigs.append([len(layers), sorted(pats)])
            sample = {'kind': 'e2e', 'opts': opts, 'ran': len(ran),
                      'of': len(all_ids)}
        finally:
            vworld.destroy(root)
    return {'viol': viol[:15], 'evals': stats['e2e_runs'],
            'sig': {'multi': sigs} if sigs else None, 'counters': stats,
            'sample': sample}
