"""C14 - discovery loads exactly the matching test modules, once, in sorted
order."""
import os
import random

LEVEL = 'exploration'
RULE = ('random directory trees (depth <=4; directory names tests, ftests, '
        'pkg, sub, x-y, 1abc, "my tests", .git, node_modules, __pycache__, '
        'CVS, _darcs ...; packages with and without __init__.py; files '
        'tests.py, test_*.py, testing.py, check_*.py, test-e.py, TESTS.py, '
        '*.txt / *.bak look-alikes); every .py file reports its own import. '
        'Option vectors: tests/test-file patterns {default, ^f?tests$, '
        '^(test|check)_}, duplicated / nested --path and --test-path '
        'entries in both orders, --ignore_dir, -m pattern lists, --package, '
        'a directory knit into a package with --package-path DIR PACKAGE '
        '(its modules are named, filtered and loaded as PACKAGE.<name>). '
        'Each tree is run normally and again with a proxy that scrambles '
        'every os.walk listing the finder sees and a different file '
        'creation order. Oracle: imported candidate files == model, each '
        'once; no decoy .py is imported (ancestor __init__.py exempt); '
        'import order == top-down sorted walk (or globally sorted) and '
        'identical under scrambling. Non-trivial = >=1 selected and >=1 '
        'decoy module in one tree; distinct by (tree, options).')
ASSUMPTIONS = ['model trees.expected_discovery written from the statement',
               'a directory never holds both X.py and a package X',
               '"sorted by path" is read as: sorted inside each directory, '
               'directories visited top-down in sorted order (a globally '
               'sorted order is accepted as well)']
FLOORS = {'runs': 500, 'selected_files': 1000, 'decoys_checked': 3000,
          'order_checked': 300, 'scrambled_runs': 200, 'multi_root_cases': 60,
          'module_filter_cases': 60, 'package_cases': 30,
          'package_path_cases': 30, 'package_path_selected': 30,
          'package_path_module_filter_cases': 10, 'unimportable_selected': 40}
BATCH_TIMEOUT = 300


def batch_size(tier):
    return 10


def cases(tier, seed):
    rng = random.Random(seed * 4447 + 14)
    n = 900 if tier == 'quick' else 12000
    return [{'idx': i, 'wseed': rng.randrange(1 << 30)} for i in range(n)]


def run_case(case):
    import runcase
    import trees
    import vworld
    import gen
    rng = random.Random(case['wseed'])
    prefix = 'vwd%d' % case['idx']
    files = trees.gen_tree(rng, prefix, p_link=0.12)
    # never both X.py and X/ in one directory
    for f in list(files):
        if f.endswith('.py'):
            d = f[:-3]
            if any(g.startswith(d + '/') for g in files):
                del files[f]
    # a sibling top-level package whose name merely starts with the name
    # of another one (shop / shopping)
    twin = None
    tops0 = sorted({f.split('/')[0] for f in files if '/' in f
                    and trees.IDENT.match(f.split('/')[0])})
    if tops0 and rng.random() < 0.12:
        t = rng.choice(tops0)
        twin = (t, t + 'ping')
        for f, k in list(files.items()):
            if f.startswith(t + '/') and not any(
                    f.startswith(l + '/') or f == l for l in files.links):
                files[twin[1] + f[len(t):]] = k
    # test modules that cannot be imported (they are found, loaded - once -
    # and reported like the others)
    nbroken = 0
    if rng.random() < 0.3:
        for f, k in list(files.items()):
            if k == 'py' and rng.random() < 0.2:
                files[f] = 'pyfail'
                nbroken += 1
    # a directory that is knit into a package from elsewhere
    # (--package-path DIR PACKAGE): a copy of one top-level tree under a
    # name the walk from the root does not enter; its modules are called
    # PACKAGE.<relative name> - that is the name -m filters and the name
    # they are loaded under
    knit = None
    if tops0 and not twin and rng.random() < 0.14:
        t = rng.choice(tops0)
        kdir, kpkg = 'x-knit', prefix + '_kp.ext'
        for f, k in list(files.items()):
            if f.startswith(t + '/') and not any(
                    f.startswith(l + '/') or f == l for l in files.links):
                files[kdir + f[len(t):]] = k
        if any(f.startswith(kdir + '/') for f in files):
            knit = (kdir, kpkg)
    root = vworld.scratch_dir('c14-')
    trees.write_tree(root, files, order=rng)
    if knit:
        kd = os.path.join(root, *knit[1].split('.'))
        os.makedirs(kd)
        open(os.path.join(os.path.dirname(kd), '__init__.py'), 'w').close()
        with open(os.path.join(kd, '__init__.py'), 'w') as f:
            f.write('import os\n__path__.append(os.path.join(os.path.dirname('
                    'os.path.dirname(os.path.dirname(__file__))), %r))\n'
                    % knit[0])
    with open(os.path.join(root, 'world.json'), 'w') as f:
        f.write('{}')
    tops = sorted({f.split('/')[0] for f in files if '/' in f})
    # ---- options
    tp, fpat = '^tests$', '^test'
    argv = []
    r = rng.random()
    if r < 0.2:
        tp = '^f?tests$'
        argv += ['--tests-pattern', tp]
    elif r < 0.35:
        fpat = '^(test|check)_'
        argv += ['--test-file-pattern', fpat]
    roots = ['']
    pargs = [('--path', '')]
    multi = False
    tp_outer = None
    r = rng.random()
    ident_tops = [t for t in tops if trees.IDENT.match(t)]
    if knit:
        r = 1.0
    if r < 0.15:
        pargs.append((rng.choice(['--path', '--test-path']), ''))
        multi = True
    elif r < 0.4 and ident_tops:
        nested = rng.choice(ident_tops)
        r2 = rng.random()
        if r2 < 0.35:
            pargs = [('--path', nested), ('--path', '')]
        elif r2 < 0.7:
            pargs = [('--path', ''), ('--path', nested)]
        else:
            # "--test-path checkout --path checkout/src": the outer
            # directory is only searched, the inner one is also on sys.path;
            # what lies below the inner one must be loaded under the name
            # relative to it (the longest enclosing search path)
            pargs = [('--test-path', ''), ('--path', nested)]
            if rng.random() < 0.5:
                pargs.reverse()
            tp_outer = nested
        multi = True
    # options.test_path = test_path entries, then path entries
    roots = [p for o, p in pargs if o == '--test-path'] + \
        [p for o, p in pargs if o == '--path']
    for o, p in pargs:
        argv += [o, os.path.join(root, p) if p else root]
    ign = []
    if rng.random() < 0.15:
        ign = [rng.choice(['sub', 'lib', 'pkg', 'testing'])]
        argv += ['--ignore_dir', ign[0]]
    start_dirs = None
    package = None
    if knit:
        argv += ['--package-path', os.path.join(root, knit[0]), knit[1]]
    if knit:
        pass
    elif twin and len(set(roots)) == 1 and not tp_outer:
        # -s shop -s shopping (either order): both are searched
        pk = list(twin)
        if rng.random() < 0.5:
            pk.reverse()
        package = pk[0]
        start_dirs = pk
        for x in pk:
            argv += ['-s', x]
    elif rng.random() < 0.12 and ident_tops and len(set(roots)) == 1:
        top = rng.choice(ident_tops)
        subs = [d for d in trees.listing(files, top)[0]
                if trees.IDENT.match(d)]
        package = top
        if subs and rng.random() < 0.5:
            package = top + '.' + rng.choice(subs)
        start_dirs = [package.replace('.', '/')]
        argv += ['-s', package]
    def knit_part():
        # searched after the --test-path / --path directories
        if not knit:
            return []
        return [(f, knit[1] + '.' + m) for f, m in trees.expected_discovery(
            files, [knit[0]], tp, fpat, ign)]
    want = trees.expected_discovery(files, roots, tp, fpat, ign,
                                    start_dirs) + knit_part()
    mods = [m for _, m in want]
    def toplevel(rel):
        d, n = trees.listing(files, rel)
        return set(d) | {x[:-3] for x in n if x.endswith('.py')}
    clash = False
    uniq = sorted(set(roots))
    for a in uniq:
        for b in uniq:
            if a < b and toplevel(a) & toplevel(b):
                clash = True
    if clash or len(set(mods)) != len(mods):
        # overlapping search paths give two files the same module name:
        # Python cannot load both; not what the property is about
        argv = [a for a in argv]
        i = argv.index(pargs[0][0])
        del argv[i:i + 2 * len(pargs)]
        pargs = [('--path', '')]
        roots = ['']
        argv += ['--path', root]
        multi = False
        tp_outer = None
        want = trees.expected_discovery(files, roots, tp, fpat, ign,
                                        start_dirs) + knit_part()
        mods = [m for _, m in want]
    mpats = None
    optional = set()
    unimportable = set()
    if tp_outer:
        # files outside the inner directory are found but cannot be
        # imported (their root is not on sys.path): import failures
        unimportable = {f for f, m in want
                        if not f.startswith(tp_outer + '/')}
        want = [(f, m) for f, m in want if f not in unimportable]
        mods = [m for _, m in want]
    if mods and rng.random() < (0.6 if knit else 0.3):
        mpats = gen.random_patterns(rng, mods, maxn=2)
        for p in mpats:
            argv += ['-m', p]
        full = want
        want = [(f, m) for f, m in full if vworld.selected(mpats, m)]
        # leniency: with nested search paths a file has one dotted name per
        # enclosing path; the runner falls back to the next shorter prefix
        # when the filter rejects the first name.  The statement does not
        # say which name counts, so a file accepted under any of its names
        # may be loaded, one accepted under its primary name must be.
        for f, m in full:
            names = []
            for r in set(roots) if not (
                    knit and f.startswith(knit[0] + '/')) else ():
                pre = r + '/' if r else ''
                if f.startswith(pre):
                    names.append(f[len(pre):-3].replace('/', '.'))
            if any(vworld.selected(mpats, n) for n in names) and \
                    not vworld.selected(mpats, m):
                optional.add(f)
    want_files = [f for f, _ in want]
    viol = []
    counters = {}

    def C(k, n=1):
        counters[k] = counters.get(k, 0) + n

    def V(rule, mech, **d):
        d.update(argv=[a.replace(root, '<root>') for a in argv])
        if len(viol) < 8:
            viol.append({'rule': rule, 'mech': mech, 'detail': d})

    def observe(extra_env, label):
        trace = os.path.join(root, 'trace-%s.jsonl' % label)
        r = runcase.run_inproc(argv + ['-vv'], os.path.join(root, 'world.json'), trace,
                               purge=(prefix,), purge_under=root,
                               env_extra=extra_env)
        C('runs')
        if r.raised is not None:
            V('run-aborted', 'run-raised', label=label,
              tb=(r.raised_tb or '')[-700:])
            return None
        imported = []
        for e in r.events:
            if e['k'] == 'file.import':
                rel = os.path.relpath(e['file'], root)
                imported.append(rel)
            elif e['k'] == 'contract.violation':
                V('contract:' + str(e.get('contract')),
                  'contract-' + str(e.get('contract')), label=label)
        ran = [os.path.relpath(e['file'], root) for e in r.events
               if e['k'] == 'test.body']
        return imported, ran, r

    try:
        obs = observe({}, 'plain')
        if obs is None:
            return {'viol': viol, 'evals': 1, 'counters': counters}
        imported, ran, r = obs
        py_files = {f for f, k in files.items() if k in ('py', 'pyfail')}
        cand_imports = [f for f in imported if f in py_files]
        C('selected_files', len(want_files))
        # exactly the expected files, once each
        for f in want_files:
            n = cand_imports.count(f)
            if n != 1:
                V('selected-module-not-imported-once', 'discovery-selected',
                  file=f, count=n, out=r.out[-400:] if n == 0 else None)
        decoys = py_files - set(want_files) - optional - unimportable
        if tp_outer:
            C('test_path_outer_cases')
            C('test_path_outer_selected', len(want_files))
        C('decoys_checked', len(decoys))
        for f in sorted(decoys):
            if f in cand_imports:
                V('decoy-module-imported', 'discovery-decoy-imported',
                  file=f, mpats=mpats, package=package)
        # __init__.py files: only ancestors of selected modules / package
        allowed_inits = set()
        for f in want_files:
            parts = f.split('/')[:-1]
            for i in range(1, len(parts) + 1):
                allowed_inits.add('/'.join(parts[:i]) + '/__init__.py')
        for pkg in ([package] if package else []) + [
                d.replace('/', '.') for d in (start_dirs or [])]:
            parts = pkg.split('.')
            for i in range(1, len(parts) + 1):
                allowed_inits.add('/'.join(parts[:i]) + '/__init__.py')
        for f in optional:
            parts = f.split('/')[:-1]
            for i in range(1, len(parts) + 1):
                allowed_inits.add('/'.join(parts[:i]) + '/__init__.py')
        for f in imported:
            if files.get(f) == 'init' and f not in allowed_inits:
                V('unrelated-package-imported', 'discovery-init-imported',
                  file=f)
        # each selected module's test ran once
        C('unimportable_selected', sum(
            1 for f in want_files if files.get(f) == 'pyfail'))
        for f in want_files:
            if files.get(f) == 'pyfail':
                continue
            if ran.count(f) != 1 and not optional:
                V('selected-module-test-not-run-once', 'discovery-run',
                  file=f, count=ran.count(f))
        # order
        got_order = [f for f in cand_imports if f in set(want_files)]
        via_link = [f for f in want_files
                    if any(f.startswith(l + '/') for l in files.links)]
        C('selected_through_symlinks', len(via_link))
        C('decoys_behind_symlinks', sum(
            1 for f in decoys
            if any(f.startswith(l + '/') for l in files.links)))
        # (a symbolically linked sub-directory is walked right after the
        # directory that holds it, before the real sub-directories: with
        # links among the selected files only the independence from the
        # enumeration order is checked, below)
        if len(want_files) >= 2 and not optional and not via_link:
            C('order_checked')
            if got_order != want_files and got_order != sorted(want_files):
                V('discovery-order-not-sorted', 'discovery-order',
                  got=got_order[:8], want=want_files[:8])
        # ---- scrambled enumeration
        if rng.random() < 0.6:
            obs2 = observe({'ZTR_WALK_SHUFFLE': str(rng.randrange(1, 10 ** 6))},
                           'scrambled')
            C('scrambled_runs')
            if obs2 is not None:
                imp2 = [f for f in obs2[0] if f in py_files]
                if imp2 != cand_imports:
                    V('discovery-depends-on-enumeration-order',
                      'discovery-enumeration-order',
                      plain=cand_imports[:8], scrambled=imp2[:8])
    finally:
        vworld.destroy(root)
    if twin and start_dirs and len(start_dirs) == 2:
        C('prefix_sibling_package_cases')
    if knit:
        C('package_path_cases')
        C('package_path_selected', sum(
            1 for f in want_files if f.startswith(knit[0] + '/')))
        if mpats:
            C('package_path_module_filter_cases')
    if multi:
        C('multi_root_cases')
    if mpats:
        C('module_filter_cases')
    if package:
        C('package_cases')
    sig = None
    if want_files and decoys:
        sig = [sorted(files), [a.replace(root, '<root>') for a in argv]]
    return {'viol': viol, 'evals': 1, 'sig': sig, 'counters': counters,
            'sample': {'files': sorted(files)[:12],
                       'argv': [a.replace(root, '<root>') for a in argv],
                       'selected': want[:6]}}
