"""C15 - stale-bytecode cleanup deletes only orphaned .pyc/.pyo files."""
import hashlib
import os
import random
import stat

LEVEL = 'exploration'
RULE = ('random trees mixing .py / .pyc / .pyo (protected by a sibling .py '
        'or orphaned), look-alikes (x.pyc.bak, .pyc, pyc, X.PYC, x.pyx, a '
        '*directory* named x.py beside x.pyc; bytecode beside a source whose '
        'name differs in letter case / Unicode normalisation / a blank '
        'only), __pycache__ directories with '
        'orphans, --ignore_dir and non-identifier / .git / node_modules '
        'directories, symlinked directories (inside and outside the search '
        'path; also links *named* __pycache__ / CVS / .git that point at a '
        'store of source-less bytecode), read-only files; every combination of -k, --usecompiled, '
        '--path, --test-path, nested paths, --ignore_dir, --package. '
        'Observation: file-system snapshot (path, type, size, sha1, mode) '
        'before/after a --list-tests run + sys.addaudithook records of '
        'every remove/unlink/rmdir/rename/truncate/chmod/open-for-writing '
        'under the tree in the runner process (+ strace -f on a sample). '
        'Oracle: must_delete <= deleted <= may_delete, nothing else missing, '
        'changed or created; with -k / --usecompiled nothing deleted. '
        'Non-trivial = tree has >=1 orphan and >=1 protected look-alike; '
        'distinct by (tree, options).')
ASSUMPTIONS = ['model computed by an independent walk of the real tree',
               'leniency: a bare ".pyc"/".pyo" name and orphans behind a '
               'symbolic link may or may not be deleted']
FLOORS = {'late_orphans_judged': 20, 'runs': 400, 'orphans_must': 600, 'protected_checked': 2000,
          'keep_runs': 100, 'audit_events': 500, 'lookalikes_checked': 800,
          'symlinked_cache_dirs': 40, 'orphans_beside_renamed_source': 30,
          'cleanup_and_discovery_cases': 60}
BATCH_TIMEOUT = 300

IGN_DEFAULT = ['.git', '.svn', 'CVS', '{arch}', '.arch-ids', '_darcs']


def _strace_unescape(tok):
    simple = {'a': 7, 'b': 8, 'f': 12, 'n': 10, 'r': 13, 't': 9, 'v': 11,
              '\\': 92, '"': 34}
    if tok in simple:
        return chr(simple[tok])
    if tok[0] == 'x':
        return chr(int(tok[1:], 16))
    return chr(int(tok, 8))


def batch_size(tier):
    return 10


def cases(tier, seed):
    rng = random.Random(seed * 7001 + 15)
    n = 600 if tier == 'quick' else 12000
    out = [{'idx': i, 'wseed': rng.randrange(1 << 30),
            'strace': (i % 97 == 5)} for i in range(n)]
    # source-less bytecode that appears while the run is under way (a layer
    # or test that compiles a module and ships the .pyc only, a build step):
    # every runner process cleans up before *its* discovery, so a layer
    # subprocess started afterwards must remove it (and only it)
    m = 40 if tier == 'quick' else 600
    out += [{'idx': n + i, 'wseed': rng.randrange(1 << 30), 'late': True}
            for i in range(m)]
    rng.shuffle(out)
    return out


DIRS = ['pkg', 'sub', 'tests', 'lib', 'x-y', '1abc', '.git', 'node_modules',
        '__pycache__', 'CVS', '_darcs', 'build', 'my dir']
LOOKALIKES = ['x.pyc.bak', '.pyc', 'pyc', 'X.PYC', 'mod.pyx', 'pycache.txt',
              'y.pyo.orig', 'z.PYO', '.pyo', 'data.pyc.d']


def build_tree(rng, root, prefix):
    """Create the tree on disk; returns list of top-level dir names."""
    tops = []
    casefold = [0]

    def fill(d, depth):
        os.makedirs(d, exist_ok=True)
        names = []
        for i in range(rng.randint(0, 3)):
            stem = rng.choice(['mod', 'tests', 'test_a', 'util', '__init__'])
            r = rng.random()
            if r < 0.35:      # source + bytecode
                names += [stem + '.py', stem + rng.choice(['.pyc', '.pyo'])]
                if rng.random() < 0.35:
                    # ... and a side file of the source whose name sorts
                    # between the two (x.py < x.py.orig < x.pyc)
                    names.append(stem + '.py' + rng.choice(
                        ['.orig', ',cover', '-old', '.in', '_bak', 'b', '~',
                         '.rej', '0']))
            elif r < 0.6:     # orphan bytecode
                names += [stem + rng.choice(['.pyc', '.pyo'])]
            elif r < 0.8:     # source only
                names += [stem + '.py']
            else:             # both kinds of bytecode, no source
                names += [stem + '.pyc', stem + '.pyo']
        if rng.random() < 0.15:
            # bytecode whose source exists under a name that differs in
            # letter case or in Unicode normalisation only (a module that
            # was renamed): on this file system these are different names,
            # so the bytecode is an orphan
            stem = rng.choice(['mod', 'util', 'tests', 'report'])
            ext = rng.choice(['.pyc', '.pyo'])
            names += rng.choice([
                [stem + '.py', stem.capitalize() + ext],
                [stem.upper() + '.py', stem + ext],
                ['caf\u00e9.py', 'cafe\u0301' + ext],
                [stem + '.py', stem + ' ' + ext],
                [stem + '.PY', stem + ext]])
            casefold[0] += 1
        for i in range(rng.randint(0, 2)):
            names.append(rng.choice(LOOKALIKES))
        for n in set(names):
            p = os.path.join(d, n)
            with open(p, 'w') as f:
                if n.endswith('.py'):
                    # (says when it is imported: test discovery loads some
                    # of these)
                    f.write('# source %s\nimport vworld_rt\n'
                            'vworld_rt.file_imported(__name__, __file__)\n'
                            % n)
                else:
                    f.write('bytecode-ish %s %d\n' % (n, rng.randrange(99)))
            if rng.random() < 0.05:
                os.chmod(p, 0o444)
        if rng.random() < 0.08:
            # a *directory* called gone.py beside gone.pyc
            os.makedirs(os.path.join(d, 'gone.py'), exist_ok=True)
            open(os.path.join(d, 'gone.pyc'), 'w').write('orphan\n')
        if depth > 0:
            for _ in range(rng.randint(0, 3)):
                fill(os.path.join(d, rng.choice(DIRS)), depth - 1)
        if store and rng.random() < 0.07:
            # a symbolic link carrying a name the cleanup must not enter
            # (__pycache__, an ignored directory name), pointing at a
            # directory full of bytecode without sources
            ln = os.path.join(d, rng.choice(['__pycache__', '__pycache__',
                                             'CVS', '.git', '_darcs']))
            if not os.path.lexists(ln):
                os.symlink(store[0], ln)
                store.append(ln)

    # bytecode store outside every search path (target of the links above)
    store = []
    st = os.path.join(root, '%s_store' % prefix)
    os.makedirs(os.path.join(st, 'deeper'))
    for n in ('a.cpython-312.pyc', 'b.pyc', 'c.pyo', 'deeper/d.pyc'):
        open(os.path.join(st, n), 'w').write('cached %s\n' % n)
    store.append(st)
    for i in range(rng.randint(1, 3)):
        top = '%s_top%d' % (prefix, i)
        tops.append(top)
        fill(os.path.join(root, top), rng.randint(1, 3))
    # a directory outside every search path, and symlinks into it / inside
    outside = os.path.join(root, '%s_outside' % prefix)
    fill(outside, 1)
    open(os.path.join(outside, 'far.pyc'), 'w').write('orphan far\n')
    if rng.random() < 0.3:
        os.symlink(outside, os.path.join(root, tops[0], 'linked'))
    if rng.random() < 0.2 and len(tops) > 1:
        os.symlink(os.path.join(root, tops[1]),
                   os.path.join(root, tops[0], 'peer'))
    return tops


def snapshot(root):
    out = {}
    for dirpath, dirs, files in os.walk(root):
        for n in dirs + files:
            p = os.path.join(dirpath, n)
            st = os.lstat(p)
            rel = os.path.relpath(p, root)
            if stat.S_ISLNK(st.st_mode):
                out[rel] = ('link', os.readlink(p))
            elif stat.S_ISDIR(st.st_mode):
                out[rel] = ('dir', stat.S_IMODE(st.st_mode))
            else:
                with open(p, 'rb') as f:
                    h = hashlib.sha1(f.read()).hexdigest()
                out[rel] = ('file', st.st_size, h, stat.S_IMODE(st.st_mode))
    return out


def model(root, search_dirs, ignore_dir):
    """(must, may) as sets of real paths."""
    import trees
    ign = set(IGN_DEFAULT) | set(ignore_dir)
    must, may = set(), set()
    visited = set()

    def walk(d, strict):
        key = (os.path.realpath(d), strict)
        if key in visited:
            return
        visited.add(key)
        try:
            entries = sorted(os.listdir(d))
        except OSError:
            return
        dirs = [e for e in entries if os.path.isdir(os.path.join(d, e))]
        files = [e for e in entries if e not in dirs]
        for n in files:
            if n[-4:] in ('.pyc', '.pyo') and n[:-1] not in files:
                rp = os.path.realpath(os.path.join(d, n))
                may.add(rp)
                if strict and len(n) > 4:
                    must.add(rp)
        for e in dirs:
            if e in ign or e == '__pycache__':
                continue
            p = os.path.join(d, e)
            # "every such orphan": the statement excludes __pycache__ and
            # ignored directories only, so directories that test discovery
            # would not enter (names that are no identifiers, node_modules)
            # are cleaned as well; what lies behind a symbolic link stays a
            # "may"
            walk(p, strict and not os.path.islink(p))

    for sd in search_dirs:
        walk(sd, True)
    return must, may


def run_late(case):
    import common
    import gen
    import vworld
    rng = random.Random(case['wseed'])
    prefix = 'vwb%d' % case['idx']
    mode = rng.choice(['par', 'par', 'resume', 'resume', 'seq'])
    nl = 3 if mode == 'par' else rng.randint(2, 3)
    layers = [{'name': 'L%s' % c, 'kind': 'class', 'bases': [],
               'hooks': {'setUp': 'ok', 'tearDown': 'ok'}}
              for c in 'abc'[:nl]]
    if mode == 'resume':
        layers[0]['hooks']['tearDown'] = 'nie'
    pkg = prefix + '_p'
    orphans = rng.sample([pkg + '/ghost.pyc', pkg + '/tests/ghost2.pyo',
                          'top_level.pyc', pkg + '/tests/test_gone.pyc',
                          pkg + '/sub/deep.pyo', 'work-dir/x.pyc',
                          pkg + '/tests/tests.pyc'], rng.randint(1, 4))
    protected = rng.sample([pkg + '/tests/test_m0.pyc',
                            pkg + '/tests/__init__.pyo',
                            pkg + '/__pycache__/ghost.cpython-312.pyc',
                            pkg + '/tests/__pycache__/ghost3.pyc',
                            pkg + '/ghost.pyc.bak', pkg + '/ghostpyc',
                            pkg + '/tests/CVS/old.pyc',
                            prefix + '_layers.pyc'], rng.randint(1, 4))
    acts = [{'ph': rng.choice(['setUp', 'body', 'tearDown']),
             'do': 'write_file', 'path': pth, 'text': 'not bytecode'}
            for pth in orphans + protected]
    rng.shuffle(acts)
    tbl = {}
    for i, ls in enumerate(layers):
        tbl[ls['name']] = [{'name': 'test_%d' % k, 'kind': 'pass',
                            'actions': acts if (i, k) == (0, 0) else []}
                           for k in range(rng.randint(1, 2))]
    spec = gen.simple_world(prefix, layers, tbl)
    opts = {'verbose': rng.randint(0, 2)}
    plan = None
    if mode == 'par':
        # -j 2 runs every layer in a subprocess, two at a time: Lb holds in
        # its first test until the parent has reaped La, so Lc's subprocess
        # is started after La's test has written the files
        opts['processes'] = 2
        lm = spec['layers_module']
        first_b = [tid for tid, ts, layer, lvl, m, node
                   in vworld.iter_tests(spec) if layer == 'Lb'][0]
        plan = {'holds': [{'point': 'test.body:' + first_b,
                           'child_only': True, 'timeout': 45,
                           'wait_for': ['reaped.%s.La' % lm]}]}
    keep = rng.choice([None, None, None, '-k', '--usecompiled'])
    viol = []
    counters = {}

    def C(k, n=1):
        counters[k] = counters.get(k, 0) + n

    def V(rule, mech, **d):
        d.update(mode=mode, keep=keep, orphans=orphans, protected=protected,
                 neutral=getattr(w, 'neutral', None))
        if len(viol) < 8:
            viol.append({'rule': rule, 'mech': mech, 'detail': d})

    root = vworld.materialise(spec)
    w = None
    try:
        w = common.run_world(spec, plan, opts, root=root, markers=True,
                             extra_argv=[keep] if keep else [])
        if any(e['k'] == 'barrier.timeout' for e in w.events):
            return {'inconclusive': 'barrier timed out'}
        C('runs')
        C('late_runs')
        if w.raised is not None:
            V('run-aborted', 'run-raised', tb=(w.raised_tb or '')[-700:])
            return {'viol': viol, 'evals': 1, 'counters': counters}
        written = {e['path'] for e in w.events if e['k'] == 'file.written'}
        if written != set(orphans + protected):
            return {'inconclusive': 'the files were not written'}
        kept = bool(keep) or '--keepbytecode' in (w.neutral or [])
        pids = {e['pid'] for e in w.events if e['k'] == 'test.body'}
        if mode == 'par':
            # (three subprocesses; Lc's came after the files)
            pids = pids if len(pids) == 3 else set()
        left = [p for p in orphans if os.path.exists(os.path.join(root, p))]
        gone = [p for p in protected
                if not os.path.exists(os.path.join(root, p))]
        if gone:
            V('deleted-a-file-that-is-not-an-orphan',
              'bytecode-deleted-non-orphan', extra=gone)
        C('protected_checked', len(protected))
        if kept:
            C('keep_runs')
            if len(left) != len(orphans):
                V('deleted-despite-keep-option', 'bytecode-keep-deleted',
                  deleted=[p for p in orphans if p not in left])
        elif mode != 'seq' and len(pids) >= 2:
            # a runner process started after the files had appeared
            C('late_orphans_judged', len(orphans))
            C('orphans_must', len(orphans))
            if left:
                V('orphan-not-deleted', 'bytecode-orphan-kept', missing=left)
        else:
            C('late_runs_without_a_later_process')
    finally:
        vworld.destroy(root)
    return {'viol': viol, 'evals': 1, 'counters': counters,
            'sig': [mode, keep, sorted(orphans), sorted(protected)],
            'sample': {'mode': mode, 'keep': keep, 'orphans': orphans}}


def run_case(case):
    if case.get('late'):
        return run_late(case)
    import runcase
    import vworld
    import ztr_monitor
    rng = random.Random(case['wseed'])
    prefix = 'vwb%d' % case['idx']
    base = vworld.scratch_dir('c15-')
    root = os.path.join(base, 'tree')
    os.makedirs(root)
    tops = build_tree(rng, root, prefix)
    with open(os.path.join(base, 'world.json'), 'w') as f:
        f.write('{}')
    argv = ['--list-tests']
    search = []
    r = rng.random()
    if r < 0.5:
        search = [os.path.join(root, t) for t in tops]
    elif r < 0.75:
        search = [os.path.join(root, tops[0])]
    else:
        # nested + duplicate
        search = [os.path.join(root, tops[0]), os.path.join(root, tops[0]),
                  os.path.join(root, tops[-1])]
        subs = [d for d in sorted(os.listdir(search[0]))
                if os.path.isdir(os.path.join(search[0], d))]
        if subs:
            search.append(os.path.join(search[0], rng.choice(subs)))
    for sd in search:
        argv += [rng.choice(['--path', '--test-path']), sd]
    ign = []
    if rng.random() < 0.25:
        ign = [rng.choice(['sub', 'lib', 'build', 'pkg'])]
        argv += ['--ignore_dir', ign[0]]
    keep = None
    r = rng.random()
    if r < 0.15:
        keep = '-k'
    elif r < 0.25:
        keep = '--keepbytecode'
    elif r < 0.35:
        keep = '--usecompiled'
    if keep:
        argv.append(keep)
    if rng.random() < 0.1:
        argv += ['-m', 'nothing_matches_this']
    must, may = model(root, search, ign)
    before = snapshot(root)
    viol = []
    counters = {}

    def C(k, n=1):
        counters[k] = counters.get(k, 0) + n

    def V(rule, mech, **d):
        d.update(argv=[a.replace(root, '<tree>') for a in argv])
        if len(viol) < 8:
            viol.append({'rule': rule, 'mech': mech, 'detail': d})

    try:
        if case.get('strace'):
            w = runcase.run_cli(argv, os.path.join(base, 'world.json'),
                                os.path.join(base, 'trace.jsonl'),
                                env_extra={'ZTR_AUDIT': '1',
                                           'ZTR_AUDIT_ROOT': root},
                                timeout=120, prefix_cmd=[
                                    'strace', '-f', '-qq', '-e',
                                    'trace=unlink,unlinkat,rename,renameat,'
                                    'renameat2,rmdir,truncate,ftruncate',
                                    '-o', os.path.join(base, 'strace.log')])
            # syscall-level cross-check
            import re as _re
            try:
                log = open(os.path.join(base, 'strace.log')).read()
            except OSError:
                log = ''
            for ln in log.splitlines():
                m = _re.search(r'(unlink|unlinkat|rmdir|rename\w*|truncate)'
                               r'\((?:AT_FDCWD, )?"([^"]+)"', ln)
                if not m or not ln.rstrip().endswith('= 0'):
                    continue
                # strace writes bytes outside printable ASCII as C escapes
                # ("cafe\314\201.pyc"): back to the real path
                sp = _re.sub(
                    r'\\([0-7]{1,3}|x[0-9a-fA-F]{2}|[abfnrtv\\"])',
                    lambda mm: _strace_unescape(mm.group(1)),
                    m.group(2)).encode('latin-1').decode('utf-8',
                                                         'surrogateescape')
                if not os.path.isabs(sp):
                    sp = os.path.join(base, sp)
                sp = os.path.realpath(sp) if os.path.exists(
                    os.path.dirname(sp)) else sp
                if not sp.startswith(root):
                    continue
                C('strace_syscalls')
                if m.group(1) not in ('unlink', 'unlinkat') or keep or \
                        sp not in may:
                    V('syscall-outside-model', 'bytecode-strace',
                      line=ln[:200])
            events = w.events
            raised = None if w.rc in (0, 1) else 'rc=%r %s' % (
                w.rc, w.err[-400:])
            C('cli_runs')
        else:
            ztr_monitor.enable_audit()
            r = runcase.run_inproc(
                argv, os.path.join(base, 'world.json'),
                os.path.join(base, 'trace.jsonl'), purge=(prefix,),
                purge_under=root, env_extra={'ZTR_AUDIT_ROOT': root})
            events = r.events
            raised = r.raised_tb if r.raised is not None else None
        C('runs')
        if raised:
            V('run-aborted', 'run-raised', tb=str(raised)[-700:])
            return {'viol': viol, 'evals': 1, 'counters': counters}
        after = snapshot(root)
        deleted = {os.path.realpath(os.path.join(root, p))
                   for p in before if p not in after}
        created = [p for p in after if p not in before]
        changed = [p for p in before if p in after and before[p] != after[p]]
        rel = lambda s: sorted(os.path.relpath(x, root) for x in s)  # noqa
        if created:
            V('files-created', 'bytecode-created', created=created[:5])
        if changed:
            V('files-modified', 'bytecode-modified', changed=changed[:5])
        if keep:
            C('keep_runs')
            if deleted:
                V('deleted-despite-keep-option', 'bytecode-keep-deleted',
                  deleted=rel(deleted)[:6], option=keep)
        else:
            extra = deleted - may
            missing = must - deleted
            if extra:
                V('deleted-a-file-that-is-not-an-orphan',
                  'bytecode-deleted-non-orphan', extra=rel(extra)[:6])
            if missing:
                V('orphan-not-deleted', 'bytecode-orphan-kept',
                  missing=rel(missing)[:6])
            C('orphans_must', len(must))
            import unicodedata

            def fold(n):
                return unicodedata.normalize('NFC', n).lower().replace(
                    ' ', '')
            C('orphans_beside_renamed_source', sum(
                1 for x in must
                if any(fold(y) == fold(os.path.basename(x)[:-1])
                       for y in os.listdir(os.path.dirname(x))
                       if os.path.isdir(os.path.dirname(x)))))
        # audit records
        aud = [e for e in events if e['k'] == 'audit']
        C('audit_events', len(aud))
        # "before discovery": no deletion after the first module of the
        # tree has been loaded by test discovery (same process, one event
        # sequence)
        imports = [e for e in events if e['k'] == 'file.import']
        if imports and aud:
            first = min(imports, key=lambda e: (e['seq']))
            late = [e for e in aud if e['pid'] == first['pid'] and
                    e['seq'] > first['seq'] and
                    e['ev'] in ('os.remove', 'os.unlink')]
            C('cleanup_and_discovery_cases')
            if late:
                V('bytecode-deleted-after-discovery-began',
                  'bytecode-cleanup-late',
                  first_import=os.path.relpath(first['file'], root),
                  late=[os.path.relpath(e['path'], root) for e in late][:5])
        for e in aud:
            p = os.path.realpath(e['path'])
            if e['ev'] in ('os.remove', 'os.unlink'):
                if keep or p not in may:
                    V('audit-remove-outside-model', 'bytecode-audit-remove',
                      ev=e['ev'], path=os.path.relpath(p, root))
            else:
                V('audit-unexpected-operation', 'bytecode-audit-op',
                  ev=e['ev'], path=os.path.relpath(p, root))
        protected = [p for p, v in before.items()
                     if v[0] == 'file' and
                     os.path.realpath(os.path.join(root, p)) not in may]
        C('protected_checked', len(protected))
        look = [p for p in protected
                if os.path.basename(p) in LOOKALIKES or
                p.endswith(('.pyc', '.pyo'))]
        C('lookalikes_checked', len(look))
        C('symlinked_cache_dirs', sum(
            1 for p, v in before.items() if v[0] != 'file' and
            os.path.islink(os.path.join(root, p)) and
            os.path.basename(p) in ('__pycache__', 'CVS', '.git', '_darcs')))
    finally:
        # read-only files would otherwise survive rmtree
        for dp, ds, fs in os.walk(base):
            for n in fs:
                try:
                    os.chmod(os.path.join(dp, n), 0o644)
                except OSError:
                    pass
        vworld.destroy(base)
    sig = None
    if must and look:
        sig = [sorted(before)[:60], [a.replace(root, '<tree>') for a in argv]]
    return {'viol': viol, 'evals': 1, 'sig': sig, 'counters': counters,
            'sample': {'argv': [a.replace(root, '<tree>') for a in argv],
                       'must': sorted(os.path.relpath(x, root)
                                      for x in must)[:6],
                       'files': len(before)}}
