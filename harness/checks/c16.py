"""C16 - --stop-on-error stops after the first failing test but still cleans
up."""
import random

LEVEL = 'fault_enumeration'
RULE = ('all-good skeleton worlds (1-3 layers + unit, 1-4 tests each); the '
        'first bad item is placed at every position class (first / middle / '
        'last test of first / middle / last layer) x every bad kind (failure, '
        'error, setUp/tearDown/cleanup error, two-event kinds, unexpected '
        'success, failing sub-tests, layer setUp failure), a second bad item '
        'is sampled behind it; options -x x --repeat 1-3 x --shuffle-seed x '
        'mode (in-process, -j2, resumed children). Oracle per process over '
        'the fact trace: after the first bad test\'s own events no test.setUp '
        'fact follows; in a sequential run no layer.setUp.enter follows; the '
        'layer state machine ends empty; the faulty layer has its summary '
        'line; verdict failed. Non-trivial = >=1 test or layer was scheduled '
        'after the bad one; distinct by (skeleton, position, kind, options, '
        'mode).')
ASSUMPTIONS = ['a layer tearDown failure between layers is not a "test '
               'recorded a failure" event (not in the statement) and is not '
               'injected here']
FLOORS = {'stop_points_judged': 400, 'scheduled_after': 300,
          'repeat_cases': 80, 'layer_setup_fail_cases': 30, 'child_cases': 30,
          'shuffle_cases': 50,
          'stop_points_inside_a_class_run_as_a_unit': 40}
BATCH_TIMEOUT = 400


def batch_size(tier):
    return 8


def cases(tier, seed):
    rng = random.Random(seed * 4099 + 16)
    n = 700 if tier == 'quick' else 12000
    return [{'idx': i, 'wseed': rng.randrange(1 << 30)} for i in range(n)]


DYN_KINDS = ['fail', 'error', 'setup_error', 'teardown_error',
             'body_teardown_error', 'cleanup_error', 'fail_teardown_error']


def run_case(case):
    import common
    import gen
    import oracles
    import truth
    import vworld
    rng = random.Random(case['wseed'])
    prefix = 'vwx%d' % case['idx']
    spec = gen.fault_world(rng, prefix, nlayers=(1, 3), tests=(1, 4),
                           p_bad=0.0, p_unit=0.4)
    tests = {tid: (ts, layer) for tid, ts, layer, lvl, m, node
             in vworld.iter_tests(spec)}
    tids = [t for t in tests if tests[t][0]['kind'] != 'skip_deco']
    lnames = [ls['name'] for ls in spec['layers']]
    plan = {}
    what = 'test'
    r0 = rng.random()
    if r0 < 0.12:
        # a class that is run as a unit and whose class fixture raises: an
        # error recorded by a test entry outside any startTest / stopTest
        what = 'unit'
        gen.add_unit_nodes(rng, spec, n=(1, 1), fixtures=[
            {'setUpClass': 'raise:ValueError'},
            {'tearDownClass': 'raise:KeyError'}])
    elif r0 < 0.26:
        # a class that is run as a unit (its tests go through a stdlib suite
        # with the runner's result object) and one of its tests - not the
        # last - goes wrong: the tests behind it must not start either
        what = 'unit_inner'
        node = gen.add_unit_nodes(rng, spec, n=(1, 1), kinds=('pass',),
                                  fixtures=[{'setUpClass': 'ok',
                                             'tearDownClass': 'ok'}])[0]
        nt = rng.randint(3, 5)
        node['tests'] = [{'name': 'test_u%d' % j, 'kind': 'pass'}
                         for j in range(nt)]
        b = rng.randrange(nt - 1)
        node['tests'][b]['kind'] = rng.choice(
            ['fail', 'error', 'teardown_error', 'setup_error', 'uxsuccess',
             'cleanup_error'])
        umod = next(m['name'] for m in spec['modules']
                    if node in m['suite'].get('ch', []))
        unit_bad = '%s.%s.test_u%d' % (umod, node['name'], b)
    elif r0 < 0.36:
        what = 'layer'
        ln = rng.choice(lnames)
        plan = {'layers': {ln: {'setUp': 'raise:' + rng.choice(
            ['ValueError', 'NeedsArgs'])}}}
    else:
        nbad = 1 if rng.random() < 0.6 else 2
        for tid in rng.sample(tids, min(nbad, len(tids))):
            kind = rng.choice(gen.BAD_KINDS)
            ov = {'kind': kind}
            if kind == 'subtests':
                ov['subs'] = rng.choice([['F'], ['P', 'E'], ['F', 'E', 'P'],
                                         ['P', 'P', 'F']])
            plan.setdefault('tests', {})[tid] = ov
    if lnames and rng.random() < 0.25:
        # on top of that a layer whose tearDown raises (an ordinary
        # exception): the other layers are still torn down, the summary is
        # still printed
        ln = rng.choice(lnames)
        plan.setdefault('layers', {}).setdefault(ln, {}).setdefault(
            'tearDown', 'raise:' + rng.choice(['ValueError', 'OSError']))
    opts = {'stop': True, 'verbose': rng.randint(0, 2)}
    if rng.random() < 0.4:
        opts['repeat'] = rng.randint(2, 3)
        # a test that goes wrong in a later iteration only (or only in the
        # first): the stop must come exactly there
        for tid, ov in list((plan.get('tests') or {}).items()):
            if ov['kind'] in DYN_KINDS and rng.random() < 0.45:
                plan['tests'][tid] = {'kind': 'pass', 'kinds_seq': rng.choice(
                    [['pass', ov['kind']], ['pass', 'pass', ov['kind']],
                     [ov['kind'], 'pass'], ['skip_body', ov['kind']]])}
    if rng.random() < 0.3:
        opts['shuffle_seed'] = rng.randrange(1000)
    mode = 'in'
    r = rng.random()
    if r < 0.1:
        opts['processes'] = 2
        mode = 'par'
    elif r < 0.2 and lnames:
        mode = 'resume'
        for ln in lnames:
            h = plan.setdefault('layers', {}).setdefault(ln, {})
            h.setdefault('tearDown', 'nie')
    w = common.run_world(spec, plan, opts)
    viol = []
    counters = {}

    def C(k, n=1):
        counters[k] = counters.get(k, 0) + n

    def V(rule, mech, **d):
        d.update(opts=opts, plan=plan, mode=mode)
        if len(viol) < 6:
            viol.append({'rule': rule, 'mech': mech, 'detail': d})

    if w.raised is not None:
        V('run-aborted', 'run-raised', tb=(w.raised_tb or '')[-700:])
        return {'viol': viol, 'evals': 1, 'counters': counters}
    viol.extend(w.cviol[:2])
    over = plan.get('tests') or {}
    bad_ids = set(over)
    if what == 'unit_inner':
        bad_ids.add(unit_bad)
    parent = next((e['pid'] for e in w.events if e['k'] == 'run.enter'), None)
    by_pid = oracles.split_pids(w.events)
    has_children = any(pid != parent and any(
        e['k'].startswith('test.') for e in evs)
        for pid, evs in by_pid.items())
    scheduled_after = 0
    judged = 0
    for pid, evs in by_pid.items():
        first = None        # index of first event of the first bad item
        bad_tid = None
        for i, e in enumerate(evs):
            if e['k'] == 'test.setUp' and e['id'] in bad_ids and (
                    e.get('ek') is None or vworld.is_bad({'kind': e['ek']})):
                first, bad_tid = i, e['id']
                if e.get('ek') and i and any(
                        x['k'] == 'test.setUp' and x['id'] == e['id']
                        for x in evs[:i]):
                    C('bad_in_later_iteration_only')
                break
            if e['k'] == 'layer.setUp.exit' and not e.get('ok'):
                first, bad_tid = i, None
                break
            if e['k'].startswith('class.') and \
                    str(e.get('beh') or '').startswith('raise'):
                first, bad_tid = i, None
                C('class_fixture_stop_points')
                break
        if first is None:
            continue
        judged += 1
        C('stop_points_judged')
        if what == 'unit_inner' and bad_tid == unit_bad:
            C('stop_points_inside_a_class_run_as_a_unit')
        later_tests = [e['id'] for e in evs[first + 1:]
                       if e['k'] == 'test.setUp']
        if later_tests:
            mech = 'stop-test-started-after-failure'
            if (opts.get('repeat') or 1) > 1 and \
                    set(later_tests) <= {e['id'] for e in evs[:first + 1]
                                         if e['k'] == 'test.setUp'}:
                mech = 'stop-next-repeat-iteration-starts'
            V('test-started-after-first-failure', mech, pid=pid,
              bad=bad_tid, later=later_tests[:5])
        if not has_children and not opts.get('processes'):
            later_su = [e['layer'] for e in evs[first + 1:]
                        if e['k'] == 'layer.setUp.enter']
            if later_su:
                V('layer-set-up-after-first-failure',
                  'stop-layer-setup-after-failure', pid=pid, bad=bad_tid,
                  later=later_su)
    # what was scheduled after?
    if judged:
        want = vworld.expected_tests(spec, opts)
        total = sum(len(v) for v in want.values()) * (opts.get('repeat') or 1)
        started = sum(1 for e in w.events if e['k'] == 'test.setUp')
        scheduled_after = max(0, total - started)
        C('scheduled_after', 1 if scheduled_after else 0)
    v, st = oracles.layer_machine(w.events, spec, plan)
    for x in v[:3]:
        x['detail'].update(opts=opts, plan=plan, mode=mode)
        viol.append(x)
    T = truth.compute(w.events, spec, plan, opts)
    if T.bad and w.verdict is not True:
        V('verdict-not-failed', 'stop-verdict', verdict=w.verdict)
    if bad_ids and judged:
        # the layer of the first bad test has its summary line
        model = T.model
        ran_layers = {l['name'] for l in w.info['layers'] if l['ran']}
        for L, d in T.layers.items():
            if d['F'] or d['E'] or d['U']:
                full = vworld.full_layer_name(spec, None if L == 'UNIT' else L)
                if full not in ran_layers:
                    V('summary-line-missing', 'stop-summary-missing',
                      layer=full, out=w.out[-500:])
    if opts.get('repeat'):
        C('repeat_cases')
    if what == 'layer' and judged:
        C('layer_setup_fail_cases')
    if has_children:
        C('child_cases')
    if opts.get('shuffle_seed') is not None:
        C('shuffle_cases')
    sig = None
    if judged and scheduled_after:
        sig = [common.shape_of(spec), plan, opts, mode]
    return {'viol': viol, 'evals': max(1, judged), 'sig': sig,
            'counters': counters,
            'sample': {'plan': plan, 'opts': opts, 'mode': mode,
                       'scheduled_after': scheduled_after}}
