"""C02 - the verdict is 'failed' exactly when something went wrong, in every
mode, and does not depend on what tests write."""
import random

LEVEL = 'fault_enumeration'
RULE = ('fault enumeration on all-good skeleton worlds (1-3 layers + unit, '
        '1-3 tests each, incl. skips / expected failures / '
        'NotImplementedError tear-downs): the all-good plan (negative '
        'control) and every single placement of one bad item - each test x '
        'a bad kind (11 kinds), each layer x {setUp, tearDown} raising, an '
        'import-failing / bad-test_suite module - plus sampled pairs, each '
        'executed in modes in-process, resumed children, -j1, -j2, -j(k+1), '
        'CLI exit status (sampled); child faults: crash at a test / layer '
        'hook / report x {exit0, exit3, SIGKILL, SIGSEGV}, spawn failure '
        '(EAGAIN on the n-th Popen), report cut at a byte offset. Every plan '
        'is re-run with a noise overlay (header-looking lines "0 0 0", '
        '"3 1 1", summary look-alikes, 200 kB bursts on sys.stdout, '
        'sys.stderr, sys.__stderr__, fd 1, fd 2). Oracle: verdict == '
        '(bad facts != {}) in each mode, equal across modes, unchanged by '
        'noise. Non-trivial = >=1 executed test and the verdict compared in '
        '>=2 modes; distinct by (skeleton, plan, mode set).')
ASSUMPTIONS = ['bad facts are read from the trace (which hooks raised, which '
               'tests started) and calibrated unittest outcome kinds',
               'a child crash/spawn failure/cut report injected by the '
               'harness counts as a bad fact']
FLOORS = {'iteration_dependent_plans': 15, 'verdicts_judged': 600, 'good_controls': 40, 'bad_plans': 250,
          'noise_pairs': 150, 'child_fault_cases': 100, 'mode_sets': 150,
          'cli_status_checked': 30, 'import_fails_in_children_only': 25,
          'import_fails_in_children_layer_lost': 10}
BATCH_TIMEOUT = 600

NOISE_LINES = ['0 0 0\n', '3 1 1\n', ' 12 0 0 \r\n', '5 0\n', '1 2 3 4\n',
               '  Ran 3 tests with 0 failures, 0 errors and 0 skipped in '
               '0.000 seconds.\n',
               'Total: 0 tests, 0 failures, 0 errors and 0 skipped in 0.1 '
               'seconds.\n', 'Tests with errors:\n   bogus\n',
               'café ☃\n', 'no newline at end', '\n' * 50,
               '7 0 0 widgets processed\n', '2026 09 29 12:00:01 started\n']
STREAMS = ['stdout', 'stderr', '__stderr__', 'fd1', 'fd2', 'stdout.buffer']


# kinds whose outcome is decided at run time (no decorator involved), so
# that it can differ between the executions of one test (kinds_seq)
DYN_KINDS = ['fail', 'error', 'setup_error', 'teardown_error',
             'body_teardown_error', 'cleanup_error', 'fail_teardown_error']


def batch_size(tier):
    return 1


def cases(tier, seed):
    rng = random.Random(seed * 5309 + 2)
    n = 64 if tier == 'quick' else 400
    return [{'idx': i, 'wseed': rng.randrange(1 << 30),
             'budget': 4 if tier == 'quick' else 12} for i in range(n)]


def noise_overlay(rng, plan, spec, tids):
    """Copy of plan in which tests and layers also write noise."""
    import copy
    p = copy.deepcopy(plan)
    heavy = rng.random() < 0.15
    binary = rng.random() < 0.35
    for tid in tids:
        if rng.random() < 0.7:
            acts = []
            if binary:
                # every chatting test also puts a complete line that is not
                # UTF-8 on the real stderr
                acts.append({'ph': rng.choice(['setUp', 'body', 'tearDown']),
                             'do': 'write', 'stream': 'fd2', 'text': 'caf',
                             'tail_hex': rng.choice(['e90a', 'fffe0a',
                                                     '8081c30a'])})
            for _ in range(rng.randint(1, 3)):
                text = rng.choice(NOISE_LINES)
                if heavy and rng.random() < 0.3:
                    text = ('x' * 199 + '\n') * 1000
                act = {'ph': rng.choice(['setUp', 'body', 'tearDown']),
                       'do': 'write', 'stream': rng.choice(STREAMS),
                       'text': text}
                if rng.random() < 0.2:
                    # bytes that are not UTF-8 (a C extension, a tool with
                    # another locale): a complete line of them
                    act['text'] = 'caf'
                    act['tail_hex'] = rng.choice(['e90a', 'ff fe 0a',
                                                  '80 81 c3 0a']).replace(
                                                      ' ', '')
                acts.append(act)
            if rng.random() < 0.25:
                # something that writes to the real stderr when the
                # interpreter shuts down, i.e. after a layer subprocess has
                # sent its report (lines that look like a report header
                # included: nothing behind the report is part of it)
                acts.append({'ph': 'body', 'do': 'atexit_write',
                             'text': rng.choice(['late line\n', 'bye\nbye\n',
                                                 '7 0 0\n', '0 0 0\n',
                                                 'a b c\n', '1 1 1\nx\n'])})
            p.setdefault('tests', {}).setdefault(tid, {})['actions'] = acts
    for ls in spec['layers']:
        if rng.random() < 0.5:
            h = p.setdefault('layers', {}).setdefault(ls['name'], {})
            hook = rng.choice(['setUp', 'tearDown'])
            beh = h.get(hook, (ls.get('hooks') or {}).get(hook))
            if beh is None and hook not in (ls.get('hooks') or {}):
                continue
            if isinstance(beh, dict):
                continue
            h[hook] = {'beh': beh or 'ok', 'actions': [
                {'ph': 'body', 'do': 'write',
                 'stream': rng.choice(STREAMS),
                 'text': rng.choice(NOISE_LINES)}]}
    return p


def header_noise_on_child_stderr(plan, late=False):
    """Does the overlay write a line that parses as a report header to the
    child's real stderr (late: at interpreter shutdown, behind the report)?
    (classification of the known finding only)"""
    def hdr(text):
        for line in text.splitlines():
            parts = line.strip().split()
            if len(parts) in (3, 4):
                try:
                    [int(x) for x in parts]
                    return True
                except ValueError:
                    pass
        return False
    acts = []
    for t in (plan.get('tests') or {}).values():
        acts += t.get('actions') or []
    for h in (plan.get('layers') or {}).values():
        for v in h.values():
            if isinstance(v, dict):
                acts += v.get('actions') or []
    if late:
        return any(a.get('do') == 'atexit_write' and hdr(a.get('text', ''))
                   for a in acts)
    return any(a.get('stream') in ('__stderr__', 'fd2') and
               hdr(a.get('text', '')) for a in acts)


def unterminated_noise_on_child_stderr(plan):
    """Does the overlay write a partial line (no line end) to the child's
    real stderr?  (classification of the known finding only)"""
    acts = []
    for t in (plan.get('tests') or {}).values():
        acts += t.get('actions') or []
    for h in (plan.get('layers') or {}).values():
        for v in h.values():
            if isinstance(v, dict):
                acts += v.get('actions') or []
    return any(a.get('stream') in ('__stderr__', 'fd2') and
               a.get('text') and not a['text'].endswith('\n') for a in acts)


def run_case(case):
    import common
    import gen
    import truth
    import vworld
    rng = random.Random(case['wseed'])
    prefix = 'vwv%d' % case['idx']
    bad = truth.calibration_agrees()
    if bad:
        return {'inconclusive': 'calibration disagrees: %r' % (bad,)}
    spec = gen.fault_world(rng, prefix, nlayers=(1, 3), tests=(1, 3),
                           p_bad=0.0, p_unit=0.5)
    # a harmless extra module that can be made to fail at import
    spec['modules'].append({
        'name': '%s_p.tests.test_zextra' % prefix,
        'file': '%s_p/tests/test_zextra.py' % prefix,
        'suite': {'t': 'suite', 'ch': [
            {'t': 'class', 'name': 'TestExtra',
             'tests': [{'name': 'test_e', 'kind': 'pass'}]}]}})
    # a quarter of the worlds also have classes that are run as a unit
    # (class fixtures: fine or skipping here, made to raise by the plans)
    unodes = []
    if rng.random() < 0.25:
        unodes = gen.add_unit_nodes(
            rng, spec, fixtures=[{'setUpClass': 'ok', 'tearDownClass': 'ok'},
                                 {'setUpClass': 'skip'}])
    tests = {tid: (ts, layer) for tid, ts, layer, lvl, m, node
             in vworld.iter_tests(spec)}
    tids = sorted(tests)
    lnames = [ls['name'] for ls in spec['layers']]
    k = len({l for _, l in tests.values()})
    base_plan = {}
    if rng.random() < 0.3 and lnames:
        base_plan = {'layers': {rng.choice(lnames): {'tearDown': 'nie'}}}
    # ---- plans: good control + every single placement + pairs
    plans = [('good', base_plan, False)]
    singles = []
    for tid in tids:
        if tests[tid][0]['kind'] in ('skip_deco',):
            continue
        singles.append(('test', tid))
    for ln in lnames:
        singles.append(('layer', ln, 'setUp'))
        singles.append(('layer', ln, 'tearDown'))
    singles.append(('module', spec['modules'][-1]['name']))
    for un in unodes:
        singles.append(('unit', un['name'], rng.choice(
            [{'setUpClass': 'raise:ValueError'},
             {'tearDownClass': 'raise:KeyError'}])))

    def apply(plan, item):
        import copy
        p = copy.deepcopy(plan)
        if item[0] == 'test':
            kind = rng.choice(gen.BAD_KINDS)
            ov = {'kind': kind}
            if kind == 'subtests':
                ov['subs'] = rng.choice([['F'], ['P', 'E'], ['F', 'E', 'P'],
                                         ['S', 'F']])
            if kind in DYN_KINDS and rng.random() < 0.4:
                # bad in some --repeat iterations only (first only, all but
                # the first, the middle one ...)
                ov = {'kind': 'pass', 'kinds_seq': rng.choice([
                    [kind, 'pass'], ['pass', kind], ['pass', kind, 'pass'],
                    [kind, 'pass', kind], [kind, 'skip_body']])}
                p['_repeat'] = rng.choice([2, 3, 3])
            elif rng.random() < 0.15:
                p['_repeat'] = 2
            p.setdefault('tests', {})[item[1]] = ov
        elif item[0] == 'unit':
            p.setdefault('units', {})[item[1]] = item[2]
        elif item[0] == 'layer':
            # (a NotImplementedError means "cannot be torn down" when it
            # comes out of tearDown - out of setUp it is an error like any)
            p.setdefault('layers', {}).setdefault(item[1], {})[item[2]] = \
                'raise:' + rng.choice(
                    ['ValueError', 'KeyError', 'NeedsArgs'] +
                    (['NotImplementedError'] * 2 if item[2] == 'setUp'
                     else []))
        else:
            p.setdefault('modules', {})[item[1]] = rng.choice([
                {'what': 'raise', 'exc': 'ImportError'},
                {'what': 'raise', 'exc': 'ValueError'},
                # a module that calls sys.exit() at import time
                {'what': 'sysexit', 'code': 0},
                {'what': 'sysexit', 'code': 3}])
        return p
    rng.shuffle(singles)
    for item in singles:
        plans.append(('single', apply(base_plan, item), True))
    for _ in range(3):
        a, b = rng.sample(singles, 2) if len(singles) >= 2 else (singles[0],
                                                                 singles[0])
        plans.append(('pair', apply(apply(base_plan, a), b), True))
    # correlated layer faults along a base edge (derived and base layer
    # both misbehave, incl. a base that cannot be torn down)
    edges = [(ls['name'], b) for ls in spec['layers']
             for b in ls.get('bases', []) if b != 'UNIT']
    chain = []
    for _ in range(3 if edges else 0):
        d, b = rng.choice(edges)
        p = {'layers': {
            d: {rng.choice(['setUp', 'tearDown', 'tearDown']):
                'raise:' + rng.choice(['ValueError', 'KeyError'])},
            b: {'tearDown': rng.choice(['nie', 'nie', 'raise:OSError'])}}}
        chain.append(('chain', p, True))
    plans = plans[:1] + rng.sample(plans[1:], min(len(plans) - 1,
                                                  case['budget'])) + \
        chain[:max(3, case['budget'] // 4)] if chain else \
        plans[:1] + rng.sample(plans[1:], min(len(plans) - 1,
                                              case['budget']))
    viol = []
    counters = {}
    sigs = []

    def C(key, n=1):
        counters[key] = counters.get(key, 0) + n

    def V(rule, mech, **d):
        if len(viol) < 10:
            viol.append({'rule': rule, 'mech': mech, 'detail': d})

    root = vworld.materialise(spec)

    def mode_opts(mode, plan):
        import copy
        p = plan
        o = {'verbose': rng.choice([0, 0, 1, 2])}
        o.update(level_opts[0])
        if plan.get('_repeat'):
            o['repeat'] = plan['_repeat']
        if mode == 'resume':
            p = copy.deepcopy(plan)
            for ln in lnames:
                h = p.setdefault('layers', {}).setdefault(ln, {})
                td = h.get('tearDown')
                if td is None or td == 'ok':
                    h['tearDown'] = 'nie'
        elif mode == 'j1':
            o['processes'] = 1
        elif mode == 'j2':
            o['processes'] = 2
        elif mode == 'jk1':
            o['processes'] = k + 1
        return p, o

    def one(plan, mode, env_extra=None, cli=False):
        p, o = mode_opts(mode, plan)
        w = common.run_world(spec, p, o, root=root,
                             mode='cli' if cli else 'in',
                             env_extra=env_extra)
        return w, p, o

    # a third of the plans are run with something said about test levels
    # (all generated tests are on level 1: --only-level 2 / 3 select none of
    # them - whatever went wrong while looking for tests still counts)
    level_opts = [{}]
    try:
        for label, plan, intended_bad in plans:
            level_opts[0] = rng.choice([
                {}, {}, {}, {}, {'at_level': 0}, {'all': True},
                {'only_level': 2}, {'only_level': 3}, {'only_level': 1},
                {'at_level': 2}, {'at_level': -1}])
            if level_opts[0]:
                C('level_option_plans')
            modes = ['in']
            pool = ['j2', 'jk1', 'j1']
            if len(lnames) >= 2 or (lnames and None in
                                    {l for _, l in tests.values()}):
                pool.append('resume')
            if label == 'good':
                modes += rng.sample(pool, 2)
            elif rng.random() < 0.7:
                modes += rng.sample(pool, 1)
            verdicts = {}
            executed = 0
            for mode in modes:
                w, p, o = one(plan, mode)
                if w.raised is not None:
                    V('run-aborted', 'run-raised', mode=mode, plan=plan,
                      tb=(w.raised_tb or '')[-700:])
                    continue
                T = truth.compute(w.events, spec, p, o)
                executed += sum(sum(d['started'].values())
                                for d in T.layers.values())
                verdicts[mode] = w.verdict
                C('verdicts_judged')
                if w.verdict != T.bad:
                    V('verdict-differs-from-facts',
                      'verdict-' + ('false-pass' if T.bad else 'false-fail'),
                      mode=mode, plan=p, opts=o, verdict=w.verdict,
                      bad_facts={'layer': T.layer_failures,
                                 'import': T.import_failures,
                                 'tests': {L: (len(d['F']), len(d['E']),
                                               len(d['U']))
                                           for L, d in T.layers.items()}},
                      out=w.out[-600:])
                if label == 'good' and mode == 'in':
                    C('good_controls')
                    if T.bad:
                        V('good-plan-has-bad-facts', 'harness-good-plan-bad',
                          facts=T.layer_failures + T.import_failures)
                # noise overlay, same mode
                if rng.random() < 0.4:
                    pn = noise_overlay(rng, p, spec, tids)
                    wn = common.run_world(spec, pn, o, root=root)
                    C('noise_pairs')
                    C('late_stderr_writers', sum(
                        1 for e in wn.events if e['k'] == 'atexit.registered'))
                    if wn.raised is not None:
                        V('run-aborted-under-noise', 'run-raised', mode=mode,
                          tb=(wn.raised_tb or '')[-700:])
                    elif wn.verdict != w.verdict:
                        mech = 'verdict-changed-by-noise'
                        par = next((e['pid'] for e in wn.events
                                    if e['k'] == 'run.enter'), None)
                        kids = any(e['k'].startswith(('test.', 'layer.'))
                                   and e['pid'] != par for e in wn.events)
                        if kids and header_noise_on_child_stderr(pn):
                            mech = 'verdict-header-lookalike-noise'
                        elif kids and \
                                unterminated_noise_on_child_stderr(pn) and \
                                header_noise_on_child_stderr(pn, late=True):
                            # both known mechanisms together: the partial
                            # line makes the real header unreadable, the
                            # parent reads on and takes a look-alike that
                            # was written behind the report for the header
                            mech = 'verdict-header-lookalike-noise'
                        elif kids and wn.verdict is True and \
                                unterminated_noise_on_child_stderr(pn):
                            # partial line glued to the report header: the
                            # parent cannot parse it (false 'failed' only)
                            mech = 'verdict-unterminated-noise-glued-to-' \
                                   'header'
                        V('verdict-changed-by-noise', mech, mode=mode,
                          quiet=w.verdict, noisy=wn.verdict, plan=pn,
                          out=wn.out[-500:])
            if len(verdicts) >= 2:
                C('mode_sets')
                if len(set(verdicts.values())) > 1:
                    V('verdict-differs-between-modes', 'verdict-mode-differs',
                      verdicts=verdicts, plan=plan)
                if executed:
                    sigs.append([common.shape_of(spec), plan, sorted(modes)])
            if intended_bad:
                C('bad_plans')
            if plan.get('units'):
                C('class_fixture_fault_plans')
            if label == 'chain':
                C('base_edge_fault_plans')
            if plan.get('_repeat'):
                C('repeat_plans')
                if any('kinds_seq' in (t or {}) for t in
                       (plan.get('tests') or {}).values()):
                    C('iteration_dependent_plans')
        level_opts[0] = {}
        # ---- CLI exit status
        for label, plan, _b in rng.sample(plans, min(2, len(plans))):
            w, p, o = one(plan, 'in', cli=True)
            if w.timed_out:
                continue
            T = truth.compute(w.events, spec, p, o)
            C('cli_status_checked')
            if w.rc not in (0, 1) or bool(w.rc) != T.bad:
                V('exit-status-differs-from-facts', 'verdict-exit-status',
                  rc=w.rc, bad=T.bad, plan=p, err=w.err[-500:])
        # ---- child faults (good plan otherwise)
        cf = []
        for tid in tids:
            L = tests[tid][1]
            cf.append({'crash': {'at': 'test.body:' + tid}})
        for ln in lnames:
            cf.append({'crash': {'at': 'layer.setUp:' + ln}})
            cf.append({'crash': {'at': 'layer.tearDown:' + ln}})
        cf.append({'crash': {'at': 'report'}})
        rng.shuffle(cf)
        for c in cf[:max(1, case['budget'] // 8)]:
            hows = ['exit0', 'exit3', 'SIGKILL', 'SIGSEGV', 'kbint']
            if c['crash']['at'].startswith('layer.'):
                hows += ['sysexit', 'sysexit0']
            c['crash']['how'] = rng.choice(hows)
            plan = dict(base_plan)
            plan.update(c)
            w, p, o = one(plan, 'j2')
            C('child_fault_cases')
            crashed = any(e['k'] == 'crash' for e in w.events)
            if w.raised is not None:
                V('run-aborted', 'run-raised', plan=plan,
                  tb=(w.raised_tb or '')[-700:])
            elif crashed and w.verdict is not True:
                V('child-death-not-failed', 'verdict-child-death',
                  plan=plan, out=w.out[-700:])
            C('verdicts_judged')
        # ---- a test module that can be imported where the run starts
        # but not in the layer subprocesses (it is the only module with
        # tests of its layer, so that subprocess finds nothing to run)
        owners = {}
        for tid, (ts, L) in tests.items():
            owners.setdefault(L or 'UNIT', set()).add(tid.rsplit('.', 2)[0])
        for m, node, L, lvl in vworld.iter_units(spec):
            owners.setdefault(L or 'UNIT', set()).add(m['name'])
        cands = sorted((L, mn, len(ms) == 1) for L, ms in owners.items()
                       for mn in ms
                       if any(t.startswith(mn + '.') for t in tids))
        if cands:
            # (when other modules have tests on the layer too, the
            # subprocess still finds its layer and simply has fewer tests)
            solo_c = [c for c in cands if c[2]]
            L, mname, solo = rng.choice(
                solo_c if solo_c and rng.random() < 0.6 else cands)
            plan = dict(base_plan)
            plan['modules'] = {mname: {
                'what': 'raise', 'child_only': True,
                'exc': rng.choice(['ImportError', 'ModuleNotFoundError',
                                   'OSError'])}}
            w, p, o = one(plan, rng.choice(['j2', 'jk1']))
            T = truth.compute(w.events, spec, p, o)
            if w.raised is not None:
                V('run-aborted', 'run-raised', plan=plan,
                  tb=(w.raised_tb or '')[-700:])
            elif T.import_failures_in_children:
                C('import_fails_in_children_only')
                C('import_fails_in_children_layer_lost' if solo else
                  'import_fails_in_children_layer_still_found')
                C('verdicts_judged')
                if w.verdict is not True:
                    V('verdict-differs-from-facts',
                      'verdict-false-pass-child-import-layer-lost' if solo
                      else 'verdict-child-import-failure-tests-dropped',
                      plan=plan, opts=o,
                      verdict=w.verdict, layer=L, only_module_of_layer=solo,
                      bad_facts={'import_in_children':
                                 T.import_failures_in_children},
                      out=w.out[-700:])
        # spawn failure
        # (the n-th Popen only, or - persistently - every attempt to start
        # a child for the n-th layer)
        w, p, o = one(base_plan, 'j2', env_extra={
            'ZTR_SPAWN_FAIL': '%s%d:%s' % (rng.choice(['', 'layer#']),
                                           rng.randint(1, max(1, k)),
                                           rng.choice(['EAGAIN', 'ENOMEM']))})
        C('child_fault_cases')
        C('verdicts_judged')
        # bad fact: a layer for which no child was ever started
        started_layers = {e.get('layer') for e in w.events
                          if e['k'] == 'spawn'}
        failed_spawn = any(e['k'] == 'spawn.fail' and
                           e.get('layer') not in started_layers
                           for e in w.events)
        if w.raised is not None:
            V('run-aborted-on-spawn-failure', 'verdict-spawn-failure-raised',
              tb=(w.raised_tb or '')[-600:])
        elif failed_spawn and w.verdict is not True:
            V('spawn-failure-not-failed', 'verdict-spawn-failure-ignored',
              out=w.out[-600:])
        # report cut
        cut = rng.choice([0, 1, 3, 6, 7, 8, 12, 30])
        bad_plan = apply(base_plan, ('test', rng.choice(tids)))
        w, p, o = one(bad_plan, 'j2', env_extra={'ZTR_REPORT_CUT': cut})
        C('child_fault_cases')
        C('verdicts_judged')
        was_cut = any(e['k'] == 'report.cut' and e['total'] - e['at'] > 1
                      for e in w.events)
        if w.raised is not None:
            V('run-aborted-on-cut-report', 'run-raised',
              tb=(w.raised_tb or '')[-600:])
        elif was_cut and w.verdict is not True:
            V('cut-report-not-failed', 'verdict-truncated-report', cut=cut,
              out=w.out[-600:])
    finally:
        vworld.destroy(root)
    return {'viol': viol, 'evals': counters.get('verdicts_judged', 0),
            'sig': {'multi': sigs} if sigs else None, 'counters': counters,
            'sample': {'layers': [(ls['name'], ls['bases'])
                                  for ls in spec['layers']],
                       'tests': {t: tests[t][0]['kind'] for t in tids},
                       'plans': [p for _, p, _ in plans[:3]]}}
