"""Generators shared by the checks: layer graphs, worlds, option vectors."""
import itertools
import random


def all_dags(n):
    """All labelled DAGs on nodes 0..n-1 as edge lists (i -> j means j is a
    base of i).  Enumerates acyclic subsets of ordered pairs."""
    pairs = [(i, j) for i in range(n) for j in range(n) if i != j]
    out = []
    for mask in range(1 << len(pairs)):
        edges = [pairs[k] for k in range(len(pairs)) if mask >> k & 1]
        # both directions => cycle, cheap pre-filter
        es = set(edges)
        if any((j, i) in es for (i, j) in edges):
            continue
        if is_acyclic(n, edges):
            out.append(edges)
    return out


def is_acyclic(n, edges):
    adj = {i: [] for i in range(n)}
    indeg = {i: 0 for i in range(n)}
    for i, j in edges:
        adj[i].append(j)
        indeg[j] += 1
    q = [i for i in range(n) if indeg[i] == 0]
    seen = 0
    while q:
        x = q.pop()
        seen += 1
        for y in adj[x]:
            indeg[y] -= 1
            if indeg[y] == 0:
                q.append(y)
    return seen == n


def topo_order(n, edges):
    """Bases first."""
    bases = {i: [j for (a, j) in edges if a == i] for i in range(n)}
    done = []

    def visit(i):
        if i in done:
            return
        for b in bases[i]:
            visit(b)
        done.append(i)
    for i in range(n):
        visit(i)
    return done


def closure(n, edges, i):
    bases = {k: [j for (a, j) in edges if a == k] for k in range(n)}
    seen = set()
    stack = [i]
    while stack:
        x = stack.pop()
        if x in seen:
            continue
        seen.add(x)
        stack.extend(bases[x])
    return seen


NAME_POOL = ['A', 'b', 'Bx', 'a1', 'Z', 'M', 'mm', 'Q9']

HOOKS = ('setUp', 'tearDown', 'testSetUp', 'testTearDown')


# Instance layers are arbitrary objects: their __name__ need not be an
# identifier.  Names with characters that mean something in a regular
# expression, and names that differ from one another only where one of them has
# a dot (layer names end up in dotted paths, in --resume-layer arguments and
# next to --layer patterns).
EXOTIC_NAMES = ['db.Layer', 'db_Layer', 'dbxLayer', 'C++', 'DB(sqlite)',
                'a|b', 'x*', '[old]', 'Lay$', '^top', 'q?', 'a\\b', 'b.',
                'A.b', 'A-b', '{2}']
P_EXOTIC = 0.1
P_FALSY = 0.12
P_FACTORY = 0.15
P_GROUPING = 0.1
P_LATE_HOOKS = 0.3


def exoticise(rng, specs, p=None):
    """With probability p give the instance layers of this graph names out
    of EXOTIC_NAMES (in place); returns specs."""
    if rng.random() >= (P_EXOTIC if p is None else p):
        return specs
    pool = list(EXOTIC_NAMES)
    if rng.random() < 0.5:
        # keep the confusable triple together
        pool = pool[:3] + rng.sample(pool[3:], len(pool) - 3)
    else:
        rng.shuffle(pool)
    ren = {}
    for s in specs:
        if s.get('kind') == 'inst' and pool:
            ren[s['name']] = pool.pop(0)
    for s in specs:
        s['name'] = ren.get(s['name'], s['name'])
        s['bases'] = [ren.get(b, b) for b in s['bases']]
    return specs


def random_layer_graph(rng, nmax=6, nmin=1, p_edge=0.4, p_inst=0.35,
                       p_hook=0.8, names=None, multi=True, p_exotic=None):
    """Layer specs (topologically ordered, bases first)."""
    n = rng.randint(nmin, nmax)
    names = list(names or NAME_POOL)
    rng.shuffle(names)
    names = names[:n]
    if len(set(names)) < n:
        names = ['L%d' % i for i in range(n)]
    specs = []
    for i in range(n):
        kind = 'inst' if rng.random() < p_inst else 'class'
        cands = list(range(i))
        if kind == 'class':
            cands = [c for c in cands if specs[c]['kind'] == 'class']
        bases = [c for c in cands if rng.random() < p_edge]
        if not multi and len(bases) > 1:
            bases = [rng.choice(bases)]
        if kind == 'class':
            # keep bases listed most-derived first so that an MRO exists,
            # and drop bases that are ancestors of other listed bases half
            # of the time (both shapes are legal)
            bases.sort(reverse=True)
            if not _mro_ok(specs, bases):
                bases = bases[:1]
        else:
            rng.shuffle(bases)
        hooks = {}
        for h in HOOKS:
            if rng.random() < p_hook:
                hooks[h] = 'ok'
        if rng.random() < P_GROUPING:
            # a layer that only groups other layers: none of the four hooks
            # (an instance layer does not inherit any from its bases either)
            hooks = {}
        specs.append({'name': names[i], 'kind': kind,
                      'bases': [specs[b]['name'] for b in bases],
                      'hooks': hooks})
        if 'setUp' in hooks and 'tearDown' in hooks and \
                ('testSetUp' in hooks or 'testTearDown' in hooks) and \
                rng.random() < P_LATE_HOOKS:
            # its per-test hooks appear when the layer is set up and go
            # away when it is torn down
            specs[-1]['late_hooks'] = True
        if kind == 'inst' and rng.random() < P_FALSY:
            # a layer object that is false (an empty container)
            specs[-1]['falsy'] = True
    if rng.random() < P_FACTORY:
        # every class layer of this graph comes out of one factory function
        for sp in specs:
            if sp['kind'] == 'class':
                sp['factory'] = True
    exoticise(rng, specs, p_exotic)
    return specs


def diamond_family(rng, kind=None, p_hook=0.8, names=None):
    """Layer with three bases of which two share a base of their own, the
    third being an unrelated root - every order of the three bases and every
    relative naming occurs over the seeds (the order of layers is computed
    from base lists and names, so both matter)."""
    names = list(names or rng.sample(NAME_POOL, 5))
    base, left, right, aux, top = names
    kind = kind or rng.choice(['class', 'inst'])
    tb = [left, right, aux]
    rng.shuffle(tb)

    def hooks():
        return {h: 'ok' for h in HOOKS if rng.random() < p_hook}
    roots = [{'name': base, 'kind': kind, 'bases': [], 'hooks': hooks()},
             {'name': aux, 'kind': kind, 'bases': [], 'hooks': hooks()}]
    rng.shuffle(roots)
    return exoticise(rng, roots + [
        {'name': left, 'kind': kind, 'bases': [base], 'hooks': hooks()},
        {'name': right, 'kind': kind, 'bases': [base], 'hooks': hooks()},
        {'name': top, 'kind': kind, 'bases': tb, 'hooks': hooks()}])


def mi_sibling_family(rng, kind=None, p_hook=0.8):
    """Two roots A and B, a layer on both of them (either base order) and a
    sibling on only one of them: going from the first to the second, exactly
    one of the two roots has to be torn down - whichever position it has
    among the layers that are set up."""
    a, b, y, z, w = rng.sample(NAME_POOL, 5)
    kind = kind or rng.choice(['class', 'inst'])

    def hooks():
        return {h: 'ok' for h in HOOKS if rng.random() < p_hook}
    yb = [a, b]
    rng.shuffle(yb)
    roots = [{'name': a, 'kind': kind, 'bases': [], 'hooks': hooks()},
             {'name': b, 'kind': kind, 'bases': [], 'hooks': hooks()}]
    rng.shuffle(roots)
    out = roots + [
        {'name': y, 'kind': kind, 'bases': yb, 'hooks': hooks()},
        {'name': z, 'kind': kind, 'bases': [rng.choice([a, b])],
         'hooks': hooks()}]
    if rng.random() < 0.5:
        out.append({'name': w, 'kind': kind,
                    'bases': [rng.choice([a, b])], 'hooks': hooks()})
    return exoticise(rng, out)


def twin_base_family(rng, p_hook=0.85):
    """Two *different* base layer objects that carry the same name (two
    instances of one resource-layer class whose name defaults to the class
    name - plone.testing style) under two differently named test layers:
    the runner tells layers it reaches through __bases__ apart by identity.
    The world knows the twins by their own keys (r1, r2); 'pyname' is the
    __name__ both objects show to the runner."""
    r1, r2, a, b, c = rng.sample(NAME_POOL, 5)
    shared = rng.choice(['Resource', 'res', 'ZODB'])

    def hooks(force=()):
        h = {x: 'ok' for x in HOOKS if rng.random() < p_hook}
        for x in force:
            h[x] = 'ok'
        return h
    out = [{'name': r1, 'kind': 'inst', 'bases': [], 'pyname': shared,
            'hooks': hooks(('setUp', 'tearDown'))},
           {'name': r2, 'kind': 'inst', 'bases': [], 'pyname': shared,
            'hooks': hooks(('setUp', 'tearDown'))},
           {'name': a, 'kind': 'inst', 'bases': [r1], 'hooks': hooks()},
           {'name': b, 'kind': 'inst', 'bases': [r2], 'hooks': hooks()}]
    if rng.random() < 0.5:
        out.append({'name': c, 'kind': 'inst',
                    'bases': [rng.choice([r1, r2, a])], 'hooks': hooks()})
    return out


def _mro_ok(specs, base_idx):
    """Check that a class with these bases has a consistent MRO."""
    classes = {}
    try:
        for s in specs:
            if s['kind'] != 'class':
                continue
            classes[s['name']] = type(
                s['name'], tuple(classes[b] for b in s['bases']) or (object,),
                {})
        type('X', tuple(classes[specs[b]['name']] for b in base_idx)
             or (object,), {})
        return True
    except TypeError:
        return False


def layer_specs_from_dag(n, edges, names, kinds, base_order='desc'):
    """Specs for an explicit DAG (nodes 0..n-1).  Returns None if a class
    layer would need an instance base or has no consistent MRO."""
    order = topo_order(n, edges)
    specs = {}
    out = []
    for i in order:
        bases = [j for (a, j) in edges if a == i]
        if kinds[i] == 'class' and any(kinds[b] != 'class' for b in bases):
            return None
        pos = {x: k for k, x in enumerate(order)}
        bases.sort(key=lambda b: pos[b], reverse=(base_order == 'desc'))
        s = {'name': names[i], 'kind': kinds[i],
             'bases': [names[b] for b in bases], 'hooks': {}}
        specs[i] = s
        out.append(s)
    # MRO check for class layers
    classes = {}
    try:
        for s in out:
            if s['kind'] == 'class':
                classes[s['name']] = type(
                    s['name'],
                    tuple(classes[b] for b in s['bases']) or (object,), {})
    except TypeError:
        return None
    return out


KINDS_ALL = ['pass', 'fail', 'error', 'setup_error', 'teardown_error',
             'cleanup_error', 'body_teardown_error', 'skip_deco',
             'skip_setup', 'skip_body', 'xfail', 'uxsuccess', 'subtests',
             'fail_teardown_error']


def simple_world(prefix, layers, tests_by_layer, module_layout=None,
                 rng=None):
    """A world with one class per layer.

    tests_by_layer: {layer_short_or_None: [tspec, ...]}
    module_layout: list of module (name, file) to spread classes over; by
    default one module per layer in a ``tests`` package."""
    mods = []
    keys = list(tests_by_layer)
    for i, lname in enumerate(keys):
        tests = tests_by_layer[lname]
        cname = 'Test%s' % (lname or 'Unit')
        if not cname.isidentifier():
            # (layer names need not be identifiers, class names have to be)
            cname = 'TestL%d' % i
        node = {'t': 'class', 'name': cname, 'tests': tests}
        if lname is not None:
            node['layer'] = lname
        if module_layout:
            mname, mfile = module_layout[i % len(module_layout)]
        else:
            mname = '%s_p.tests.test_m%d' % (prefix, i)
            mfile = '%s_p/tests/test_m%d.py' % (prefix, i)
        for m in mods:
            if m['name'] == mname:
                m['suite']['ch'].append(node)
                break
        else:
            mods.append({'name': mname, 'file': mfile,
                         'suite': {'t': 'suite', 'ch': [node]}})
    return {'prefix': prefix, 'layers_module': prefix + '_layers',
            'layers': layers, 'modules': mods}


# ------------------------------------------------------------ nested worlds

def nested_world(rng, prefix, layers=None, nmods=(1, 4), depth=(0, 3),
                 levels=(None, None, 1, 2, 3), p_layer=0.4, p_level=0.35,
                 tests_per_class=(1, 3), classes_per_suite=(1, 2),
                 kinds=('pass',), layouts=('tests_pkg', 'tests_file',
                                           'nested_pkg', 'ns_dir'),
                 p_unit_mod=0.0, p_flat=0.0):
    """A world with several modules whose test_suite() returns suites nested
    to the given depth, with layer/level declared (or not) at every depth and
    on the class."""
    if layers is None:
        layers = random_layer_graph(rng, nmax=4, nmin=1, p_hook=0.7)
    lnames = [ls['name'] for ls in layers]
    nm = rng.randint(*nmods)
    mods = []
    no_init = []
    cls_counter = [0]

    def decl(node):
        if rng.random() < p_layer:
            node['layer'] = rng.choice(lnames + ['UNIT'])
        if rng.random() < p_level:
            lv = rng.choice(levels)
            if lv is not None:
                node['level'] = lv

    def mk_class():
        cls_counter[0] += 1
        n = rng.randint(*tests_per_class)
        node = {'t': 'class', 'name': 'TestC%d' % cls_counter[0],
                'tests': [{'name': 'test_%s%d' % (rng.choice('abxyz'), i),
                           'kind': rng.choice(kinds)} for i in range(n)]}
        decl(node)
        return node

    def mk_suite(d):
        node = {'t': 'suite', 'ch': []}
        decl(node)
        if p_flat and rng.random() < p_flat:
            node['flat'] = True
        if d <= 0:
            for _ in range(rng.randint(*classes_per_suite)):
                node['ch'].append(mk_class())
        else:
            for _ in range(rng.randint(1, 2)):
                if rng.random() < 0.3:
                    node['ch'].append(mk_class())
                else:
                    node['ch'].append(mk_suite(d - 1))
        return node

    for i in range(nm):
        layout = rng.choice(layouts)
        if layout == 'tests_pkg':
            name = '%s_p%d.tests.test_m%d' % (prefix, i % 2, i)
        elif layout == 'tests_file':
            name = '%s_q%d.tests' % (prefix, i)
        elif layout == 'ns_dir':
            # a plain directory (no __init__.py: a PEP 420 namespace
            # package) with a regular package inside
            name = '%s_ns%d.inner.tests' % (prefix, i)
            no_init.append('%s_ns%d' % (prefix, i))
        else:
            name = '%s_p%d.sub%d.tests.test_n%d' % (prefix, i % 2, i, i)
        m = {'name': name, 'file': name.replace('.', '/') + '.py',
             'suite': mk_suite(rng.randint(*depth))}
        if p_flat:
            _instance_decls(rng, m['suite'], lnames, levels, p_layer,
                            p_level)
        m['suite'].pop('dummy', None)
        mods.append(m)
    return {'prefix': prefix, 'layers_module': prefix + '_layers',
            'layers': layers, 'modules': mods, 'no_init': no_init}


def _instance_decls(rng, node, lnames, levels, p_layer, p_level):
    """Tests in flat suites sometimes declare layer / level on the test
    instance itself."""
    if node['t'] != 'suite':
        return
    for ch in node.get('ch', []):
        if ch['t'] == 'class' and node.get('flat'):
            for ts in ch['tests']:
                if rng.random() < p_layer * 0.6:
                    ts['ilayer'] = rng.choice(lnames + ['UNIT'])
                if rng.random() < p_level * 0.6:
                    lv = rng.choice(levels)
                    if lv is not None:
                        ts['ilevel'] = lv
        else:
            _instance_decls(rng, ch, lnames, levels, p_layer, p_level)


UNIT_FIXTURES = [{'setUpClass': 'raise:ValueError'},
                 {'setUpClass': 'raise:KeyError'},
                 {'tearDownClass': 'raise:OSError'},
                 {'setUpClass': 'skip'},
                 {'setUpClass': 'ok', 'tearDownClass': 'ok'}]


def add_unit_nodes(rng, spec, n=(1, 2), kinds=('pass',), fixtures=None):
    """Insert 1-2 classes that are run as a unit (class fixtures that raise
    or skip: result events without startTest / stopTest) at random positions
    of the top-level suites; each on a layer of the world or on none.
    Returns the nodes."""
    lnames = [ls['name'] for ls in spec.get('layers', [])] + [None]
    mods = [m for m in spec['modules'] if m['suite']['t'] == 'suite' and
            not (m.get('fault') or m.get('fault_test_suite') or
                 m.get('bad_suite'))]
    out = []
    if not mods:
        return out
    for i in range(rng.randint(*n)):
        m = rng.choice(mods)
        node = {'t': 'unit', 'name': 'UnitU%d' % i,
                'tests': [{'name': 'test_u%d' % j, 'kind': rng.choice(kinds)}
                          for j in range(rng.randint(1, 2))],
                'fixture': dict(rng.choice(fixtures or UNIT_FIXTURES))}
        ln = rng.choice(lnames)
        if ln is not None:
            node['layer'] = ln
        else:
            node['layer'] = 'UNIT'
        ch = m['suite']['ch']
        ch.insert(rng.randint(0, len(ch)), node)
        out.append(node)
    return out


def all_test_ids(spec):
    import vworld
    return [tid for tid, *_ in vworld.iter_tests(spec)]


def random_patterns(rng, names, maxn=3, p_neg=0.35):
    """Pattern list built from substrings of real names."""
    pats = []
    for _ in range(rng.randint(1, maxn)):
        name = rng.choice(names)
        r = rng.random()
        if r < 0.35:
            a = rng.randrange(len(name))
            b = rng.randint(a + 1, min(len(name), a + 8))
            p = re_escape(name[a:b])
        elif r < 0.5:
            p = '^' + re_escape(name[:rng.randint(1, len(name))])
        elif r < 0.65:
            p = re_escape(name[-rng.randint(1, len(name)):]) + '$'
        elif r < 0.8:
            other = rng.choice(names)
            p = '%s|%s' % (re_escape(name[-6:]), re_escape(other[-5:]))
        elif r < 0.9:
            p = rng.choice(['.', '', 'test_[ab]', '[xyz]\\d', 'C\\d*[02468]\\b',
                            'zzz_nothing'])
        else:
            p = re_escape(name)
        if rng.random() < 0.08 and len(name) > 3:
            # regex features that only mean the same when every pattern is
            # compiled and applied on its own
            a = rng.randrange(len(name) - 2)
            frag = name[a:a + rng.randint(2, 5)]
            p = rng.choice(['(?i)' + re_escape(frag.swapcase()),
                            '(%s)\\1' % re_escape(frag[:1]),
                            '(?P<g>%s)' % re_escape(frag)])
        if rng.random() < p_neg:
            p = '!' + p
        pats.append(p)
    return pats


def re_escape(s):
    import re
    return re.escape(s)


# ------------------------------------------------------------- fault worlds

BAD_KINDS = ['fail', 'error', 'setup_error', 'teardown_error',
             'cleanup_error', 'body_teardown_error', 'body_cleanup_error',
             'fail_teardown_error', 'subtests', 'uxsuccess', 'setup_fail',
             'cleanup_builtin_error']
GOOD_KINDS = ['pass', 'pass', 'pass', 'skip_deco', 'skip_setup', 'skip_body',
              'xfail']


def fault_world(rng, prefix, nlayers=(1, 3), tests=(1, 4), p_bad=0.3,
                p_unit=0.4, p_import_fault=0.0, good_kinds=None,
                bad_kinds=None, p_edge=0.45):
    """World with one class per layer, random outcome kinds."""
    nl = rng.randint(*nlayers)
    layers = random_layer_graph(rng, nmax=nl, nmin=nl, p_hook=0.8,
                                p_edge=p_edge)
    keys = [ls['name'] for ls in layers]
    if rng.random() < p_unit:
        keys = [None] + keys
    tbl = {}
    gk = good_kinds or GOOD_KINDS
    bk = bad_kinds or BAD_KINDS
    for k in keys:
        ts = []
        for i in range(rng.randint(*tests)):
            kind = rng.choice(bk) if rng.random() < p_bad else rng.choice(gk)
            t = {'name': 'test_%d' % i, 'kind': kind}
            if kind == 'subtests':
                t['subs'] = [rng.choice('FEPS') for _ in
                             range(rng.randint(1, 4))]
                if not set(t['subs']) & {'F', 'E'}:
                    t['subs'][rng.randrange(len(t['subs']))] = \
                        rng.choice('FE')
            ts.append(t)
        tbl[k] = ts
    spec = simple_world(prefix, layers, tbl)
    if rng.random() < p_import_fault:
        what = rng.choice(['import', 'test_suite', 'bad_suite'])
        m = {'name': '%s_p.tests.test_broken' % prefix,
             'file': '%s_p/tests/test_broken.py' % prefix,
             'suite': {'t': 'suite', 'ch': []}}
        if what == 'import':
            m['fault'] = {'what': 'raise',
                          'exc': rng.choice(['ImportError', 'ValueError',
                                             'SyntaxError'])}
        elif what == 'test_suite':
            m['fault_test_suite'] = {'exc': 'ValueError'}
        else:
            m['bad_suite'] = True
        spec['modules'].append(m)
    return spec


def layer_fault_plan(rng, spec, p_su=0.15, p_td=0.15, p_nie=0.0):
    plan = {}
    for ls in spec['layers']:
        h = {}
        if rng.random() < p_su:
            h['setUp'] = 'raise:' + rng.choice(['ValueError', 'KeyError',
                                                'NeedsArgs',
                                                'NotImplementedError'])
        r = rng.random()
        if r < p_td:
            h['tearDown'] = 'raise:' + rng.choice(['ValueError', 'OSError'])
        elif r < p_td + p_nie:
            h['tearDown'] = 'nie'
        if h:
            plan.setdefault('layers', {})[ls['name']] = h
    return plan


BENIGN_STDERR = ['connection was reset\n', 'a b c\n', 'warning: slow\n',
                 '1 2\n', '1 2 3 4\n', 'x y z w\n' * 20, '\n',
                 'Traceback (most recent call last):\n  File "x", line 1\n'
                 'ValueError: logged only\n', 'caf\u00e9 \u2603 !\n',
                 '1.5 2 3\n', 'one two three\n',
                 '7 0 0 widgets processed\n',
                 '2026 09 29 12:00:01 started\n', '3 1 1x\n']


def benign_child_stderr(rng, plan, tids, p=0.5):
    """Copy of plan in which tests chatter on the real stderr (complete
    lines that do not parse as a report header) and some also leave an
    atexit hook that writes after the report of a layer subprocess."""
    import copy
    q = copy.deepcopy(plan or {})
    n = 0
    for tid in tids:
        if rng.random() >= p:
            continue
        acts = [{'ph': rng.choice(['setUp', 'body', 'tearDown']),
                 'do': 'write', 'stream': rng.choice(['fd2', '__stderr__']),
                 'text': rng.choice(BENIGN_STDERR)}]
        if acts[0]['stream'] == 'fd2' and rng.random() < 0.25:
            # a complete line that is not UTF-8
            acts[0]['text'] = 'caf'
            acts[0]['tail_hex'] = rng.choice(['e90a', 'fffe0a', '8081c30a'])
        if rng.random() < 0.3:
            acts.append({'ph': 'body', 'do': 'atexit_write',
                         'text': rng.choice(['late line\n', 'a b c\n',
                                             'bye\nbye\n'])})
        t = q.setdefault('tests', {}).setdefault(tid, {})
        t['actions'] = list(t.get('actions') or []) + acts
        n += 1
    return q, n
