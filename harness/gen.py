"""Generators shared by the checks: layer graphs, worlds, option vectors."""
import itertools
import random


def all_dags(n):
    """All labelled DAGs on nodes 0..n-1 as edge lists (i -> j means j is a
    base of i).  Enumerates acyclic subsets of ordered pairs."""
    pairs = [(i, j) for i in range(n) for j in range(n) if i != j]
    out = []
    for mask in range(1 << len(pairs)):
        edges = [pairs[k] for k in range(len(pairs)) if mask >> k & 1]
        # both directions => cycle, cheap pre-filter
        es = set(edges)
        if any((j, i) in es for (i, j) in edges):
            continue
        if is_acyclic(n, edges):
            out.append(edges)
    return out


def is_acyclic(n, edges):
    adj = {i: [] for i in range(n)}
    indeg = {i: 0 for i in range(n)}
    for i, j in edges:
        adj[i].append(j)
        indeg[j] += 1
    q = [i for i in range(n) if indeg[i] == 0]
    seen = 0
    while q:
        x = q.pop()
        seen += 1
        for y in adj[x]:
            indeg[y] -= 1
            if indeg[y] == 0:
                q.append(y)
    return seen == n


def topo_order(n, edges):
    """Bases first."""
    bases = {i: [j for (a, j) in edges if a == i] for i in range(n)}
    done = []

    def visit(i):
        if i in done:
            return
        for b in bases[i]:
            visit(b)
        done.append(i)
    for i in range(n):
        visit(i)
    return done


def closure(n, edges, i):
    bases = {k: [j for (a, j) in edges if a == k] for k in range(n)}
    seen = set()
    stack = [i]
    while stack:
        x = stack.pop()
        if x in seen:
            continue
        seen.add(x)
        stack.extend(bases[x])
    return seen


NAME_POOL = ['A', 'b', 'Bx', 'a1', 'Z', 'M', 'mm', 'Q9']

HOOKS = ('setUp', 'tearDown', 'testSetUp', 'testTearDown')


def random_layer_graph(rng, nmax=6, nmin=1, p_edge=0.4, p_inst=0.35,
                       p_hook=0.8, names=None, multi=True):
    """Layer specs (topologically ordered, bases first)."""
    n = rng.randint(nmin, nmax)
    names = list(names or NAME_POOL)
    rng.shuffle(names)
    names = names[:n]
    if len(set(names)) < n:
        names = ['L%d' % i for i in range(n)]
    specs = []
    for i in range(n):
        kind = 'inst' if rng.random() < p_inst else 'class'
        cands = list(range(i))
        if kind == 'class':
            cands = [c for c in cands if specs[c]['kind'] == 'class']
        bases = [c for c in cands if rng.random() < p_edge]
        if not multi and len(bases) > 1:
            bases = [rng.choice(bases)]
        if kind == 'class':
            # keep bases listed most-derived first so that an MRO exists,
            # and drop bases that are ancestors of other listed bases half
            # of the time (both shapes are legal)
            bases.sort(reverse=True)
            if not _mro_ok(specs, bases):
                bases = bases[:1]
        else:
            rng.shuffle(bases)
        hooks = {}
        for h in HOOKS:
            if rng.random() < p_hook:
                hooks[h] = 'ok'
        specs.append({'name': names[i], 'kind': kind,
                      'bases': [specs[b]['name'] for b in bases],
                      'hooks': hooks})
    return specs


def _mro_ok(specs, base_idx):
    """Check that a class with these bases has a consistent MRO."""
    classes = {}
    try:
        for s in specs:
            if s['kind'] != 'class':
                continue
            classes[s['name']] = type(
                s['name'], tuple(classes[b] for b in s['bases']) or (object,),
                {})
        type('X', tuple(classes[specs[b]['name']] for b in base_idx)
             or (object,), {})
        return True
    except TypeError:
        return False


def layer_specs_from_dag(n, edges, names, kinds, base_order='desc'):
    """Specs for an explicit DAG (nodes 0..n-1).  Returns None if a class
    layer would need an instance base or has no consistent MRO."""
    order = topo_order(n, edges)
    specs = {}
    out = []
    for i in order:
        bases = [j for (a, j) in edges if a == i]
        if kinds[i] == 'class' and any(kinds[b] != 'class' for b in bases):
            return None
        pos = {x: k for k, x in enumerate(order)}
        bases.sort(key=lambda b: pos[b], reverse=(base_order == 'desc'))
        s = {'name': names[i], 'kind': kinds[i],
             'bases': [names[b] for b in bases], 'hooks': {}}
        specs[i] = s
        out.append(s)
    # MRO check for class layers
    classes = {}
    try:
        for s in out:
            if s['kind'] == 'class':
                classes[s['name']] = type(
                    s['name'],
                    tuple(classes[b] for b in s['bases']) or (object,), {})
    except TypeError:
        return None
    return out


KINDS_ALL = ['pass', 'fail', 'error', 'setup_error', 'teardown_error',
             'cleanup_error', 'body_teardown_error', 'skip_deco',
             'skip_setup', 'skip_body', 'xfail', 'uxsuccess', 'subtests',
             'fail_teardown_error']


def simple_world(prefix, layers, tests_by_layer, module_layout=None,
                 rng=None):
    """A world with one class per layer.

    tests_by_layer: {layer_short_or_None: [tspec, ...]}
    module_layout: list of module (name, file) to spread classes over; by
    default one module per layer in a ``tests`` package."""
    mods = []
    keys = list(tests_by_layer)
    for i, lname in enumerate(keys):
        tests = tests_by_layer[lname]
        cname = 'Test%s' % (lname or 'Unit')
        node = {'t': 'class', 'name': cname, 'tests': tests}
        if lname is not None:
            node['layer'] = lname
        if module_layout:
            mname, mfile = module_layout[i % len(module_layout)]
        else:
            mname = '%s_p.tests.test_m%d' % (prefix, i)
            mfile = '%s_p/tests/test_m%d.py' % (prefix, i)
        for m in mods:
            if m['name'] == mname:
                m['suite']['ch'].append(node)
                break
        else:
            mods.append({'name': mname, 'file': mfile,
                         'suite': {'t': 'suite', 'ch': [node]}})
    return {'prefix': prefix, 'layers_module': prefix + '_layers',
            'layers': layers, 'modules': mods}
