"""Regenerate /verif/MANIFEST.json from the table below (keeps it valid)."""
import json
import os
import sys

VERIF = os.path.dirname(os.path.dirname(os.path.abspath(__file__)))

BASE_OFF = ("cd /repo && env -u ZOPE_TESTRUNNER_VERIF /venv/bin/python -m pytest -ra -q "
            "-p no:cacheprovider --timeout=900 --continue-on-collection-errors")

# property -> (category, technique, level text, level note, design ref)
CHECKS = {}


def reg(pid, cat, technique, text, note, ref):
    CHECKS[pid] = (cat, technique, text, note, ref)


exec(open(os.path.join(VERIF, 'harness', 'manifest_table.py')).read())


def main():
    props = [json.loads(l)['id'] for l in open(os.path.join(VERIF, 'properties.jsonl'))]
    checks = []
    na = []
    for pid in props:
        if pid in CHECKS and os.path.exists(
                os.path.join(VERIF, 'harness', 'checks', pid.lower() + '.py')):
            cat, tech, text, note, ref = CHECKS[pid]
            checks.append({
                'property_id': pid,
                'quick_cmd': './check %s --tier quick' % pid,
                'thorough_cmd': './check %s --tier thorough' % pid,
                'evidence_file': 'evidence/%s.json' % pid,
                'replay_cmd_template': './check %s --replay {path}' % pid,
                'engine': 'ztr-runtime-monitor',
                'level_claimed': {'category': cat, 'text': text,
                                  'design_ref': ref},
                'level_note': note,
                'technique': tech,
            })
        else:
            na.append({'property_id': pid,
                       'reason': NOT_APPLICABLE.get(pid, 'check not built yet')})
    m = {
        'version': 1,
        'setup_cmd': './setup.sh',
        'hooks': {
            'guard': 'ZOPE_TESTRUNNER_VERIF',
            'enable': ('no source hooks: checks put /verif/harness/site on '
                       'PYTHONPATH and set ZOPE_TESTRUNNER_VERIF=1; '
                       'sitecustomize then decorates the real functions of '
                       '/repo/src (current working tree) after import'),
            'baseline_off_cmd': BASE_OFF,
            'source_commits': [],
            'add_only': True,
        },
        'engines': [{
            'name': 'ztr-runtime-monitor',
            'path': 'harness/',
            'serves_properties': [c['property_id'] for c in checks],
            'kind_free_text': ('runtime monitoring: generated test worlds '
                               'whose hooks write a cross-process event '
                               'trace, contracts decorated onto the real '
                               'functions, Popen/sleep proxies, fault '
                               'injection and schedule control; offline '
                               'oracles over the recorded histories'),
        }],
        'checks': checks,
        'notes': ('Every check runs the real code of /repo/src (working '
                  'tree). Verdicts are three-valued: exit 0 held on what was '
                  'observed, exit 1 + VIOLATION line, exit 2 INCONCLUSIVE '
                  '(never a VIOLATION line). Known findings: '
                  'known_findings.txt.'),
        'not_applicable': na,
    }
    with open(os.path.join(VERIF, 'MANIFEST.json'), 'w') as f:
        json.dump(m, f, indent=1)
    print('manifest: %d checks, %d not_applicable' % (len(checks), len(na)))


if __name__ == '__main__':
    main()
