#!/bin/sh
# usage: seeded_all.sh [name-glob]   re-runs every seeded change against the quick tier of its own property
here="$(cd "$(dirname "$0")/.." && pwd)"
for d in "$here"/seeded/${1:-C*}/; do
  n=$(basename "$d"); p=${n%%-*}
  [ -f "$d/patch.diff" ] || continue
  [ "$n" = "C05-test-state-kept" ] && { echo "== $n: skipped (neutralised by repair 4548c7a, see ROUNDS.json)"; continue; }
  echo "== $n: $(sh "$here/harness/seeded_eval.sh" "$d" $p 2>&1 | tail -1 | cut -c1-200)"
done
