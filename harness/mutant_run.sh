#!/bin/sh
# usage: mutant_run.sh <patch-or-sed-script.sh> <check args...>
# Applies a mutation to a scratch copy of /repo/src (never to /repo) and runs
# the check against it through ZTR_VERIF_SRC.
set -e
mut="$1"; shift
here="$(cd "$(dirname "$0")/.." && pwd)"
scratch="$(mktemp -d /tmp/ztr-mut-XXXXXX)"
trap 'rm -rf "$scratch"' EXIT
cp -r /repo/src "$scratch/src"
find "$scratch/src" -name __pycache__ -type d -exec rm -rf {} + 2>/dev/null || true
case "$mut" in
  *.sh) (cd "$scratch" && sh "$mut") ;;
  *) (cd "$scratch" && patch -s -p1 < "$mut") ;;
esac
ZTR_VERIF_SRC="$scratch/src" "$here/check" "$@" --no-evidence
