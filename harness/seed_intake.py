#!/usr/bin/env python3
"""Take a seeded change delivered by a sub-agent in /tmp/seed-<id>/_seed,
confirm everything it claims in a fresh scratch worktree, and file it under
/verif/seeded/<name>/ (patch.diff, demo.py, NOTES.md, meta.json).

usage: seed_intake.py <property id> <name> [source dir]
"""
import json
import os
import shutil
import subprocess
import sys
import tempfile

VERIF = os.path.dirname(os.path.dirname(os.path.abspath(__file__)))
SITE = '/tmp/ztr-site'
PY = '/venv/bin/python'


def sh(cmd, env=None, cwd=None, timeout=900):
    e = dict(os.environ)
    e.update(env or {})
    p = subprocess.run(cmd, shell=True, cwd=cwd, env=e, timeout=timeout,
                       stdout=subprocess.PIPE, stderr=subprocess.STDOUT)
    return p.returncode, p.stdout.decode('utf-8', 'replace')


def main():
    prop, name = sys.argv[1], sys.argv[2]
    src = sys.argv[3] if len(sys.argv) > 3 else '/tmp/seed-%s/_seed' % prop
    dest = os.path.join(VERIF, 'seeded', name)
    os.makedirs(dest, exist_ok=True)
    for f in ('patch.diff', 'demo.py', 'NOTES.md'):
        if os.path.exists(os.path.join(src, f)) and \
                os.path.abspath(src) != os.path.abspath(dest):
            shutil.copy(os.path.join(src, f), os.path.join(dest, f))
    patch = os.path.join(dest, 'patch.diff')
    ran = {}
    # 1. the patch applies to /repo HEAD and touches no test
    rc, out = sh('git -C /repo apply --check %s' % patch)
    ran['git apply --check'] = rc
    touched = [l[6:].strip() for l in open(patch) if l.startswith('+++ b/')]
    ran['files'] = touched
    bad = [t for t in touched if '/tests/' in t or not t.startswith('src/')]
    # 2. fresh scratch worktree with the patch
    wt = tempfile.mkdtemp(prefix='ztr-intake-')
    os.rmdir(wt)
    sh('git -C /repo worktree add -q --detach %s HEAD' % wt)
    try:
        rc, out = sh('git apply %s' % patch, cwd=wt)
        ran['apply in scratch worktree'] = rc
        env = {'PYTHONPATH': SITE, 'ZTR_VERIF_SRC': wt + '/src',
               'PYTHONDONTWRITEBYTECODE': '1'}
        rc, out = sh('%s -m pytest -q -p no:cacheprovider --timeout=900 '
                     '--continue-on-collection-errors 2>&1 | tail -1' % PY,
                     env=env, cwd=wt)
        ran['pytest (worktree, namespace repaired)'] = out.strip()
        for attempt in (2, 3):
            # test_threadsupport has timing-based tests that fail now and
            # then on a loaded machine (also on the unchanged tree)
            if '81 passed' in out:
                break
            rc, out = sh('%s -m pytest -q -p no:cacheprovider --timeout=900 '
                         '--continue-on-collection-errors 2>&1 | tail -1'
                         % PY, env=env, cwd=wt)
            ran['pytest attempt %d' % attempt] = out.strip()
            if '81 passed' in out:
                ran['pytest (worktree, namespace repaired)'] = out.strip()
        rc, out = sh('%s -m zope.testrunner --test-path %s/src -s '
                     'zope.testrunner 2>&1 | grep -E "Ran [0-9]+ tests"'
                     % (PY, wt), env=env, cwd=wt)
        ran['upstream self-tests'] = out.strip()
        for attempt in (2, 3):
            # (a few of the self-tests are timing based as well)
            if 'with 0 failures, 0 errors' in out:
                break
            rc, out = sh('%s -m zope.testrunner --test-path %s/src -s '
                         'zope.testrunner 2>&1 | grep -E "Ran [0-9]+ tests"'
                         % (PY, wt), env=env, cwd=wt)
            ran['upstream self-tests attempt %d' % attempt] = out.strip()
            if 'with 0 failures, 0 errors' in out:
                ran['upstream self-tests'] = out.strip()
        # the pinned 42: run the pinned command inside the patched worktree,
        # count the pinned ids that still pass
        rc, out = sh('%s -m pytest -q -p no:cacheprovider --timeout=900 '
                     '--continue-on-collection-errors -rA 2>&1 | grep -c '
                     '"^PASSED"' % PY, env=env, cwd=wt)
        ran['passed ids'] = out.strip()
        # 3. demo: fails with the change, passes without
        rc1, out1 = sh('%s %s/demo.py' % (PY, dest), env=env, cwd='/tmp',
                       timeout=300)
        env0 = dict(env, ZTR_VERIF_SRC='/repo/src')
        rc0, out0 = sh('%s %s/demo.py' % (PY, dest), env=env0, cwd='/tmp',
                       timeout=300)
        ran['demo with change (exit)'] = rc1
        ran['demo without change (exit)'] = rc0
        ran['demo with change (tail)'] = out1[-400:]
    finally:
        sh('git -C /repo worktree remove --force %s' % wt)
    ok = (ran['git apply --check'] == 0 and not bad and
          ran['demo with change (exit)'] != 0 and
          ran['demo without change (exit)'] == 0 and
          '81 passed' in ran['pytest (worktree, namespace repaired)'] and
          'Ran 90 tests with 0 failures, 0 errors' in
          ran['upstream self-tests'])
    notes = ''
    if os.path.exists(os.path.join(dest, 'NOTES.md')):
        notes = open(os.path.join(dest, 'NOTES.md')).read()
    meta = {'property': prop, 'name': name,
            'origin': 'independent sub-agent given only the property text '
                      'and a scratch worktree',
            'needs_to_manifest': '(see NOTES.md)',
            'confirmed_by_me': ran, 'confirmed': ok,
            'notes_excerpt': notes[:1200]}
    with open(os.path.join(dest, 'meta.json'), 'w') as f:
        json.dump(meta, f, indent=1)
    print(json.dumps(ran, indent=1)[:2500])
    print('CONFIRMED' if ok else 'NOT CONFIRMED', name)
    return 0 if ok else 1


if __name__ == '__main__':
    sys.exit(main())
