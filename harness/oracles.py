"""Offline oracles over recorded traces (facts + claims)."""
import vworld

UNIT = vworld.UNIT


class LayerModel:
    def __init__(self, spec, plan=None):
        self.spec = spec
        self.plan = plan or {}
        self.lm = spec.get('layers_module') or ''
        self.specs = {ls['name']: ls for ls in spec.get('layers', [])}
        self.layer_of_test = {}
        for tid, ts, layer, level, m, node in vworld.iter_tests(spec):
            self.layer_of_test[tid] = layer if layer is not None else 'UNIT'
        # the tests inside classes that are run as a unit (UnitEntry): every
        # one of them is a test of the unit's layer
        for m, node, layer, level in vworld.iter_units(spec):
            for ts in node['tests']:
                self.layer_of_test['%s.%s.%s' % (
                    m['name'], node['name'], ts['name'])] = \
                    layer if layer is not None else 'UNIT'

    def short(self, full):
        if full == UNIT:
            return 'UNIT'
        if self.lm and full.startswith(self.lm + '.'):
            return full[len(self.lm) + 1:]
        return full

    def closure(self, short):
        if short in self.specs:
            return vworld.layer_closure(self.spec, short)
        return {short}

    def bases(self, short):
        if short in self.specs:
            return set(self.specs[short].get('bases', []))
        return set()

    def derived(self, short):
        return {n for n in self.specs
                if short in self.closure(n) and n != short}

    def has_hook(self, short, hook):
        return vworld.has_hook(self.spec, short, hook, self.plan)


def split_pids(events):
    by = {}
    for e in events:
        by.setdefault(e.get('pid'), []).append(e)
    for lst in by.values():
        lst.sort(key=lambda e: e.get('seq', 0))
    return by


TEST_KINDS = ('test.setUp', 'test.body', 'test.tearDown', 'test.cleanup',
              'test.sub')


def layer_machine(events, spec, plan=None, expect_clean_end=True,
                  crashed_pids=()):
    """C01 state machine, run per process.  Returns (violations, stats)."""
    model = LayerModel(spec, plan)
    viol = []
    stats = {'test_events_judged': 0, 'setups': 0, 'teardowns': 0,
             'nie_teardowns': 0, 'pids': 0, 'states': set(),
             'judged_with_bases': 0}

    def V(rule, **d):
        viol.append({'rule': rule, 'mech': 'layer-' + rule, 'detail': d})

    # names that several layer objects share (twin base layers): such
    # layers always have setUp / tearDown hooks, i.e. facts under the
    # world's own keys - what the formatter says about them names nobody
    shared = {ls['pyname'] for ls in spec.get('layers', [])
              if ls.get('pyname')}
    for pid, evs in split_pids(events).items():
        S = set()
        order = []            # set-up order, for reporting
        pending_su = None
        pending_td = None
        nie_seen = False
        td_count = {}
        stats['pids'] += 1
        for e in evs:
            k = e['k']
            if k == 'claim.start_set_up':
                L = model.short(e.get('arg') or '')
                if L in shared:
                    pending_su = None
                    continue
                pending_su = L
                if not model.has_hook(L, 'setUp'):
                    # no fact will follow: judge the claim itself
                    if L in S:
                        V('setup-while-set-up', layer=L, pid=pid, via='claim')
                    miss = model.bases(L) - S
                    if miss:
                        V('setup-before-bases', layer=L,
                          missing=sorted(miss), pid=pid, via='claim')
                    if nie_seen:
                        V('setup-after-cannot-teardown', layer=L, pid=pid)
            elif k == 'claim.stop_set_up':
                L = pending_su
                pending_su = None
                if L is not None and not model.has_hook(L, 'setUp'):
                    S.add(L)
                    stats['setups'] += 1
            elif k == 'layer.setUp.enter':
                L = e['layer']
                if L in S:
                    V('setup-while-set-up', layer=L, pid=pid, via='fact')
                miss = model.bases(L) - S
                if miss:
                    V('setup-before-bases', layer=L, missing=sorted(miss),
                      pid=pid, via='fact')
                if nie_seen:
                    V('setup-after-cannot-teardown', layer=L, pid=pid)
            elif k == 'layer.setUp.exit':
                if e.get('ok'):
                    S.add(e['layer'])
                    stats['setups'] += 1
            elif k == 'claim.start_tear_down':
                L = model.short(e.get('arg') or '')
                if L in shared:
                    pending_td = None
                    continue
                pending_td = L
                if not model.has_hook(L, 'tearDown'):
                    if L not in S:
                        V('teardown-not-set-up', layer=L, pid=pid,
                          via='claim')
                    der = model.derived(L) & S
                    if der:
                        V('teardown-before-derived', layer=L,
                          still_up=sorted(der), pid=pid, via='claim')
                    S.discard(L)
                    stats['teardowns'] += 1
            elif k == 'layer.tearDown.enter':
                L = e['layer']
                if L not in S:
                    V('teardown-not-set-up', layer=L, pid=pid, via='fact',
                      attempts=td_count.get(L, 0) + 1)
                der = model.derived(L) & S
                if der:
                    V('teardown-before-derived', layer=L,
                      still_up=sorted(der), pid=pid, via='fact')
                S.discard(L)
                td_count[L] = td_count.get(L, 0) + 1
                stats['teardowns'] += 1
            elif k == 'layer.tearDown.exit':
                if not e.get('ok') and e.get('exc') == 'NotImplementedError':
                    nie_seen = True
                    stats['nie_teardowns'] += 1
            elif k in TEST_KINDS:
                tid = e['id']
                L = model.layer_of_test.get(tid)
                if L is None:
                    continue
                want = model.closure(L)
                stats['test_events_judged'] += 1
                if len(want) > 1:
                    stats['judged_with_bases'] += 1
                stats['states'].add(tuple(sorted(S)))
                if S != want:
                    V('test-under-wrong-layers', test=tid, kind=k,
                      set_up=sorted(S), want=sorted(want), pid=pid)
                if nie_seen:
                    V('test-after-cannot-teardown', test=tid, pid=pid)
        if expect_clean_end and S and pid not in crashed_pids:
            V('layers-left-set-up-at-end', left=sorted(S), pid=pid)
    stats['states'] = len(stats['states'])
    return viol, stats


def bracket_checker(events, spec, plan=None):
    """C05: testSetUp/testTearDown bracket every test, mirrored, balanced.

    The per-process stream of tokens SU(L) / T(test) / TD(L) is segmented
    into episodes  SU* T(t)* TD*  and every episode is judged."""
    model = LayerModel(spec, plan)
    viol = []
    stats = {'episodes': 0, 'episodes_with_test': 0, 'hook_events': 0,
             'episodes_without_test': 0, 'nontrivial_episodes': 0,
             'mirror_checked': 0}

    def V(rule, **d):
        viol.append({'rule': rule, 'mech': 'bracket-' + rule, 'detail': d})

    def both(L):
        return model.has_hook(L, 'testSetUp') and \
            model.has_hook(L, 'testTearDown')

    def judge(ep, pid):
        su = [x[1] for x in ep if x[0] == 'SU']
        td = [x[1] for x in ep if x[0] == 'TD']
        ts = [x[1] for x in ep if x[0] == 'T']
        stats['episodes'] += 1
        for L in set(su):
            if su.count(L) > 1:
                V('testSetUp-twice', layer=L, pid=pid, test=ts[:1])
        for L in set(td):
            if td.count(L) > 1:
                V('testTearDown-twice', layer=L, pid=pid, test=ts[:1])
        if ts:
            stats['episodes_with_test'] += 1
            tid = ts[0]
            L0 = model.layer_of_test.get(tid)
            clo = model.closure(L0)
            want_su = {x for x in clo if model.has_hook(x, 'testSetUp')}
            want_td = {x for x in clo if model.has_hook(x, 'testTearDown')}
            if len(want_su | want_td) > 1:
                stats['nontrivial_episodes'] += 1
            if set(su) != want_su:
                V('wrong-testSetUp-set', test=tid, got=su,
                  want=sorted(want_su), pid=pid)
            if set(td) != want_td:
                V('wrong-testTearDown-set', test=tid, got=td,
                  want=sorted(want_td), pid=pid)
            # bases before derived on the way in
            for i, L in enumerate(su):
                for b in model.closure(L) - {L}:
                    if b in su[i + 1:]:
                        V('testSetUp-derived-before-base', test=tid,
                          layer=L, base=b, order=su, pid=pid)
            # derived before bases on the way out
            for i, L in enumerate(td):
                for b in model.closure(L) - {L}:
                    if b in td[:i]:
                        V('testTearDown-base-before-derived', test=tid,
                          layer=L, base=b, order=td, pid=pid)
            # exact mirror for the layers that have both hooks
            su_b = [x for x in su if both(x)]
            td_b = [x for x in td if both(x)]
            stats['mirror_checked'] += 1
            if set(su_b) == set(td_b) and td_b != su_b[::-1]:
                V('testTearDown-not-mirrored', test=tid, setup_order=su_b,
                  teardown_order=td_b, pid=pid)
        else:
            stats['episodes_without_test'] += 1
            # a test that never started: nothing, or a balanced bracket
            for L in set(su) | set(td):
                if both(L) and su.count(L) != td.count(L):
                    V('unbalanced-around-unstarted-test', layer=L,
                      setups=su.count(L), teardowns=td.count(L), pid=pid)

    for pid, evs in split_pids(events).items():
        ep = []
        phase = None
        cur = None
        for e in evs:
            k = e['k']
            if k == 'layer.testSetUp':
                tok = ('SU', e['layer'])
            elif k == 'layer.testTearDown':
                tok = ('TD', e['layer'])
            elif k in TEST_KINDS and e['id'] in model.layer_of_test:
                tok = ('T', e['id'])
            elif k == 'claim.stop_test':
                # hard episode delimiter (a runner statement, used only to
                # segment; everything judged is a fact)
                if ep:
                    judge(ep, pid)
                ep = []
                phase = None
                cur = None
                stats['delimited'] = stats.get('delimited', 0) + 1
                continue
            else:
                continue
            if tok[0] != 'T':
                stats['hook_events'] += 1
            new = False
            if phase is None:
                new = False
            elif tok[0] == 'SU':
                new = phase in ('T', 'TD')
            elif tok[0] == 'T':
                new = phase == 'TD' or (phase == 'T' and tok[1] != cur)
            if new:
                judge(ep, pid)
                ep = []
            ep.append(tok)
            phase = tok[0]
            if tok[0] == 'T':
                cur = tok[1]
        if ep:
            judge(ep, pid)
    return viol, stats
