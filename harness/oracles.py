"""Offline oracles over recorded traces (facts + claims)."""
import vworld

UNIT = vworld.UNIT


class LayerModel:
    def __init__(self, spec, plan=None):
        self.spec = spec
        self.plan = plan or {}
        self.lm = spec.get('layers_module') or ''
        self.specs = {ls['name']: ls for ls in spec.get('layers', [])}
        self.layer_of_test = {}
        for tid, ts, layer, level, m, node in vworld.iter_tests(spec):
            self.layer_of_test[tid] = layer if layer is not None else 'UNIT'

    def short(self, full):
        if full == UNIT:
            return 'UNIT'
        if self.lm and full.startswith(self.lm + '.'):
            return full[len(self.lm) + 1:]
        return full

    def closure(self, short):
        if short in self.specs:
            return vworld.layer_closure(self.spec, short)
        return {short}

    def bases(self, short):
        if short in self.specs:
            return set(self.specs[short].get('bases', []))
        return set()

    def derived(self, short):
        return {n for n in self.specs
                if short in self.closure(n) and n != short}

    def has_hook(self, short, hook):
        return vworld.has_hook(self.spec, short, hook, self.plan)


def split_pids(events):
    by = {}
    for e in events:
        by.setdefault(e.get('pid'), []).append(e)
    for lst in by.values():
        lst.sort(key=lambda e: e.get('seq', 0))
    return by


TEST_KINDS = ('test.setUp', 'test.body', 'test.tearDown', 'test.cleanup',
              'test.sub')


def layer_machine(events, spec, plan=None, expect_clean_end=True,
                  crashed_pids=()):
    """C01 state machine, run per process.  Returns (violations, stats)."""
    model = LayerModel(spec, plan)
    viol = []
    stats = {'test_events_judged': 0, 'setups': 0, 'teardowns': 0,
             'nie_teardowns': 0, 'pids': 0, 'states': set(),
             'judged_with_bases': 0}

    def V(rule, **d):
        viol.append({'rule': rule, 'mech': 'layer-' + rule, 'detail': d})

    for pid, evs in split_pids(events).items():
        S = set()
        order = []            # set-up order, for reporting
        pending_su = None
        pending_td = None
        nie_seen = False
        td_count = {}
        stats['pids'] += 1
        for e in evs:
            k = e['k']
            if k == 'claim.start_set_up':
                L = model.short(e.get('arg') or '')
                pending_su = L
                if not model.has_hook(L, 'setUp'):
                    # no fact will follow: judge the claim itself
                    if L in S:
                        V('setup-while-set-up', layer=L, pid=pid, via='claim')
                    miss = model.bases(L) - S
                    if miss:
                        V('setup-before-bases', layer=L,
                          missing=sorted(miss), pid=pid, via='claim')
                    if nie_seen:
                        V('setup-after-cannot-teardown', layer=L, pid=pid)
            elif k == 'claim.stop_set_up':
                L = pending_su
                pending_su = None
                if L is not None and not model.has_hook(L, 'setUp'):
                    S.add(L)
                    stats['setups'] += 1
            elif k == 'layer.setUp.enter':
                L = e['layer']
                if L in S:
                    V('setup-while-set-up', layer=L, pid=pid, via='fact')
                miss = model.bases(L) - S
                if miss:
                    V('setup-before-bases', layer=L, missing=sorted(miss),
                      pid=pid, via='fact')
                if nie_seen:
                    V('setup-after-cannot-teardown', layer=L, pid=pid)
            elif k == 'layer.setUp.exit':
                if e.get('ok'):
                    S.add(e['layer'])
                    stats['setups'] += 1
            elif k == 'claim.start_tear_down':
                L = model.short(e.get('arg') or '')
                pending_td = L
                if not model.has_hook(L, 'tearDown'):
                    if L not in S:
                        V('teardown-not-set-up', layer=L, pid=pid,
                          via='claim')
                    der = model.derived(L) & S
                    if der:
                        V('teardown-before-derived', layer=L,
                          still_up=sorted(der), pid=pid, via='claim')
                    S.discard(L)
                    stats['teardowns'] += 1
            elif k == 'layer.tearDown.enter':
                L = e['layer']
                if L not in S:
                    V('teardown-not-set-up', layer=L, pid=pid, via='fact',
                      attempts=td_count.get(L, 0) + 1)
                der = model.derived(L) & S
                if der:
                    V('teardown-before-derived', layer=L,
                      still_up=sorted(der), pid=pid, via='fact')
                S.discard(L)
                td_count[L] = td_count.get(L, 0) + 1
                stats['teardowns'] += 1
            elif k == 'layer.tearDown.exit':
                if not e.get('ok') and e.get('exc') == 'NotImplementedError':
                    nie_seen = True
                    stats['nie_teardowns'] += 1
            elif k in TEST_KINDS:
                tid = e['id']
                L = model.layer_of_test.get(tid)
                if L is None:
                    continue
                want = model.closure(L)
                stats['test_events_judged'] += 1
                if len(want) > 1:
                    stats['judged_with_bases'] += 1
                stats['states'].add(tuple(sorted(S)))
                if S != want:
                    V('test-under-wrong-layers', test=tid, kind=k,
                      set_up=sorted(S), want=sorted(want), pid=pid)
                if nie_seen:
                    V('test-after-cannot-teardown', test=tid, pid=pid)
        if expect_clean_end and S and pid not in crashed_pids:
            V('layers-left-set-up-at-end', left=sorted(S), pid=pid)
    stats['states'] = len(stats['states'])
    return viol, stats


def bracket_checker(events, spec, plan=None):
    """C05: testSetUp/testTearDown bracket every test, mirrored, balanced."""
    model = LayerModel(spec, plan)
    viol = []
    stats = {'tests_bracketed': 0, 'hook_events': 0, 'nontrivial_tests': 0}

    def V(rule, **d):
        viol.append({'rule': rule, 'mech': 'bracket-' + rule, 'detail': d})

    for pid, evs in split_pids(events).items():
        open_stack = []        # layers whose testSetUp is open, in order
        cur_test = None        # test whose own events are being seen
        phase = 'between'      # between | opening | in_test | closing
        closed_for = None
        for e in evs:
            k = e['k']
            if k == 'layer.testSetUp':
                L = e['layer']
                stats['hook_events'] += 1
                if L in open_stack:
                    V('testSetUp-twice', layer=L, pid=pid, open=open_stack)
                if phase == 'in_test':
                    V('testSetUp-inside-test', layer=L, test=cur_test,
                      pid=pid)
                if phase == 'closing' and open_stack:
                    V('testSetUp-before-previous-closed', layer=L,
                      still_open=list(open_stack), pid=pid)
                miss = [b for b in model.closure(L) - {L}
                        if model.has_hook(b, 'testSetUp')
                        and b not in open_stack]
                if miss:
                    V('testSetUp-derived-before-base', layer=L,
                      missing=sorted(miss), pid=pid)
                open_stack.append(L)
                phase = 'opening'
            elif k == 'layer.testTearDown':
                L = e['layer']
                stats['hook_events'] += 1
                has_su = model.has_hook(L, 'testSetUp')
                if has_su:
                    if L not in open_stack:
                        V('testTearDown-without-testSetUp', layer=L,
                          pid=pid, after_test=cur_test)
                    else:
                        if open_stack[-1] != L and all(
                                model.has_hook(x, 'testTearDown')
                                for x in open_stack[open_stack.index(L) + 1:]):
                            V('testTearDown-not-mirrored', layer=L,
                              open=list(open_stack), pid=pid)
                        open_stack.remove(L)
                phase = 'closing'
            elif k in TEST_KINDS:
                tid = e['id']
                L = model.layer_of_test.get(tid)
                if L is None:
                    continue
                if tid != cur_test or phase in ('opening', 'between',
                                                'closing'):
                    if phase == 'closing' and tid == cur_test:
                        V('test-event-after-testTearDown', test=tid,
                          kind=k, pid=pid)
                    # a new test starts: the open set must be exactly the
                    # hook-bearing layers of its closure
                    want = {x for x in model.closure(L)
                            if model.has_hook(x, 'testSetUp')}
                    # layers with testSetUp but no testTearDown can never be
                    # observed to close: drop stale ones not in want
                    stale = [x for x in open_stack
                             if not model.has_hook(x, 'testTearDown')]
                    cur_open = set(open_stack)
                    if cur_open - set(stale) - want or want - cur_open:
                        V('wrong-layers-open-at-test-start', test=tid,
                          open=list(open_stack), want=sorted(want), pid=pid)
                    stats['tests_bracketed'] += 1
                    if len(want) > 1:
                        stats['nontrivial_tests'] += 1
                    # tear-down expectations for this test
                    cur_test = tid
                    phase = 'in_test'
                    # forget un-closable layers not relevant any more
                    for x in stale:
                        if x not in want:
                            open_stack.remove(x)
                    # re-open semantics for layers lacking testTearDown:
                    # they are re-entered for each test, drop duplicates
        # end of process
        left = [x for x in open_stack if model.has_hook(x, 'testTearDown')]
        if left:
            V('testSetUp-never-closed', layers=left, pid=pid)
    return viol, stats
